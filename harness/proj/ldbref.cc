// ldbref.cc - genuine Google LevelDB (system library) as an independent reference decoder/encoder.
//   ldbref table [--cmp=bytewise|reverse|lenfirst] <file>...   entries of table files (internal keys, value head)
//   ldbref dump <file>                                          leveldb::DumpFile of a log / MANIFEST / table
//   ldbref scan [--cmp=..] <dbdir>                              open with LevelDB (paranoid, verify checksums), print all entries
//   ldbref build [--cmp=..] [--block=N] [--restart=N] [--snappy=0|1] [--bloom=N] <out> < entries   TableBuilder from "hexkey hexvalue" lines
#include <leveldb/table.h>
#include <leveldb/table_builder.h>
#include <leveldb/env.h>
#include <leveldb/options.h>
#include <leveldb/iterator.h>
#include <leveldb/comparator.h>
#include <leveldb/filter_policy.h>
#include <leveldb/dumpfile.h>
#include <leveldb/db.h>
#include <cstdio>
#include <cstdint>
#include <cstring>
#include <string>
#include <iostream>

static int g_cmp = 0;
static int bytecmp(const leveldb::Slice& a, const leveldb::Slice& b) { return a.compare(b); }
static int usercmp(const leveldb::Slice& a, const leveldb::Slice& b) {
  if (g_cmp == 1) return bytecmp(b, a);
  if (g_cmp == 2) { if (a.size() != b.size()) return a.size() < b.size() ? -1 : 1; return bytecmp(a, b); }
  return bytecmp(a, b);
}
class UC : public leveldb::Comparator { public:
  int Compare(const leveldb::Slice& a, const leveldb::Slice& b) const override { return usercmp(a, b); }
  const char* Name() const override { return g_cmp == 1 ? "verif.reverse" : g_cmp == 2 ? "verif.lenfirst" : "leveldb.BytewiseComparator"; }
  void FindShortestSeparator(std::string*, const leveldb::Slice&) const override {}
  void FindShortSuccessor(std::string*) const override {} };
class IKC : public leveldb::Comparator { public:
  int Compare(const leveldb::Slice& a, const leveldb::Slice& b) const override {
    if (a.size() < 8 || b.size() < 8) return bytecmp(a, b);
    leveldb::Slice ua(a.data(), a.size() - 8), ub(b.data(), b.size() - 8); int r = usercmp(ua, ub); if (r) return r;
    uint64_t ta, tb; memcpy(&ta, a.data() + a.size() - 8, 8); memcpy(&tb, b.data() + b.size() - 8, 8); return ta > tb ? -1 : ta < tb ? 1 : 0; }
  const char* Name() const override { return "leveldb.InternalKeyComparator"; }
  void FindShortestSeparator(std::string*, const leveldb::Slice&) const override {}
  void FindShortSuccessor(std::string*) const override {} };

static void hex(const char* p, size_t n) { for (size_t i = 0; i < n; i++) printf("%02x", (unsigned char)p[i]); }
static std::string unhex(const std::string& h) { std::string o; for (size_t i = 0; i + 1 < h.size(); i += 2) o.push_back((char)strtol(h.substr(i, 2).c_str(), nullptr, 16)); return o; }

class StdoutFile : public leveldb::WritableFile { public:
  leveldb::Status Append(const leveldb::Slice& d) override { fwrite(d.data(), 1, d.size(), stdout); return leveldb::Status::OK(); }
  leveldb::Status Close() override { return leveldb::Status::OK(); }
  leveldb::Status Flush() override { return leveldb::Status::OK(); }
  leveldb::Status Sync() override { return leveldb::Status::OK(); } };

int main(int argc, char** argv) {
  if (argc < 2) return 2;
  std::string mode = argv[1]; int a = 2;
  int block = 4096, restart = 16, snappy = 1, bloom = 0;
  for (; a < argc && argv[a][0] == '-' && argv[a][1] == '-'; a++) {
    std::string o = argv[a];
    if (o == "--cmp=reverse") g_cmp = 1; else if (o == "--cmp=lenfirst") g_cmp = 2; else if (o == "--cmp=bytewise") g_cmp = 0;
    else if (o.rfind("--block=", 0) == 0) block = atoi(o.c_str() + 8);
    else if (o.rfind("--restart=", 0) == 0) restart = atoi(o.c_str() + 10);
    else if (o.rfind("--snappy=", 0) == 0) snappy = atoi(o.c_str() + 9);
    else if (o.rfind("--bloom=", 0) == 0) bloom = atoi(o.c_str() + 8);
  }
  leveldb::Env* env = leveldb::Env::Default(); IKC ikc; UC uc;
  if (mode == "table") {
    leveldb::Options opt; opt.comparator = &ikc; opt.paranoid_checks = true;
    for (; a < argc; a++) { uint64_t size; leveldb::RandomAccessFile* f; leveldb::Table* t;
      if (!env->GetFileSize(argv[a], &size).ok() || !env->NewRandomAccessFile(argv[a], &f).ok()) { printf("ERR open %s\n", argv[a]); return 3; }
      leveldb::Status s = leveldb::Table::Open(opt, f, size, &t); if (!s.ok()) { printf("ERR table %s %s\n", argv[a], s.ToString().c_str()); return 3; }
      leveldb::ReadOptions ro; ro.verify_checksums = true; leveldb::Iterator* it = t->NewIterator(ro);
      printf("FILE %s %llu\n", argv[a], (unsigned long long)size);
      for (it->SeekToFirst(); it->Valid(); it->Next()) { leveldb::Slice k = it->key(); uint64_t tag = 0;
        if (k.size() < 8) { printf("ERR shortkey\n"); return 3; }
        memcpy(&tag, k.data() + k.size() - 8, 8);
        printf("E "); hex(k.data(), k.size() - 8); printf(" %llu %llu %zu ", (unsigned long long)(tag >> 8), (unsigned long long)(tag & 0xff), it->value().size());
        hex(it->value().data(), it->value().size() < 8 ? it->value().size() : 8); printf("\n"); }
      if (!it->status().ok()) { printf("ERR iter %s\n", it->status().ToString().c_str()); return 3; }
      printf("END\n");
      delete it; delete t; delete f; }
    return 0;
  }
  if (mode == "dump") { StdoutFile out; leveldb::Status s = leveldb::DumpFile(env, argv[a], &out); if (!s.ok()) { printf("ERR dump %s\n", s.ToString().c_str()); return 3; } return 0; }
  if (mode == "scan") {
    leveldb::Options opt; opt.comparator = &uc; opt.paranoid_checks = true; opt.create_if_missing = false; leveldb::DB* db;
    leveldb::Status s = leveldb::DB::Open(opt, argv[a], &db); if (!s.ok()) { printf("ERR open %s\n", s.ToString().c_str()); return 3; }
    leveldb::ReadOptions ro; ro.verify_checksums = true; leveldb::Iterator* it = db->NewIterator(ro);
    for (it->SeekToFirst(); it->Valid(); it->Next()) { printf("E "); hex(it->key().data(), it->key().size()); printf(" %zu ", it->value().size()); hex(it->value().data(), it->value().size() < 8 ? it->value().size() : 8); printf("\n"); }
    if (!it->status().ok()) { printf("ERR iter %s\n", it->status().ToString().c_str()); return 3; }
    printf("END\n"); delete it; delete db; return 0;
  }
  if (mode == "build") {
    leveldb::Options opt; opt.comparator = &ikc; opt.block_size = block; opt.block_restart_interval = restart;
    opt.compression = snappy ? leveldb::kSnappyCompression : leveldb::kNoCompression;
    if (bloom > 0) opt.filter_policy = leveldb::NewBloomFilterPolicy(bloom);
    leveldb::WritableFile* f; if (!env->NewWritableFile(argv[a], &f).ok()) return 3;
    leveldb::TableBuilder tb(opt, f); std::string hk, hv;
    while (std::cin >> hk >> hv) { if (hv == "-") hv = ""; tb.Add(unhex(hk), unhex(hv)); }
    leveldb::Status s = tb.Finish(); if (!s.ok()) { printf("ERR finish %s\n", s.ToString().c_str()); return 3; }
    f->Sync(); f->Close(); printf("OK %llu %llu\n", (unsigned long long)tb.NumEntries(), (unsigned long long)tb.FileSize()); delete f; return 0;
  }
  return 2;
}
