"""Independent reader of the LevelDB table (sstable) format, written from the format description:
   [data blocks][filter block][metaindex block][index block][footer(48)]
   block = entries (shared|non_shared|value_len varints, key delta, value) + restart array + num_restarts,
   followed by a 5-byte trailer: compression type (0 none, 1 snappy) + masked crc32c(block bytes + type).
   footer = metaindex handle + index handle (varint64 offset,size each), zero padding to 40 bytes, magic 0xdb4775248b80fb57 LE.
   filter block = filters ... offset array (uint32 LE) + array offset (uint32) + base_lg (1 byte)."""
import struct
import fmt

MAGIC = 0xdb4775248b80fb57


class TableError(Exception):
    pass


def snappy_decompress(data):
    """Raw snappy (no framing)."""
    n, p = fmt.varint(data, 0)
    out = bytearray()
    L = len(data)
    while p < L:
        tag = data[p]; p += 1
        t = tag & 3
        if t == 0:
            ln = tag >> 2
            if ln >= 60:
                nb = ln - 59
                ln = int.from_bytes(data[p:p + nb], 'little'); p += nb
            ln += 1
            if p + ln > L: raise TableError('snappy literal overruns input')
            out += data[p:p + ln]; p += ln
        else:
            if t == 1:
                ln = ((tag >> 2) & 7) + 4
                off = ((tag >> 5) << 8) | data[p]; p += 1
            elif t == 2:
                ln = (tag >> 2) + 1
                off = data[p] | (data[p + 1] << 8); p += 2
            else:
                ln = (tag >> 2) + 1
                off = int.from_bytes(data[p:p + 4], 'little'); p += 4
            if off == 0 or off > len(out): raise TableError('snappy bad offset')
            for _ in range(ln):
                out.append(out[-off])
    if len(out) != n: raise TableError('snappy length mismatch %d != %d' % (len(out), n))
    return bytes(out)


def read_handle(b, p):
    off, p = fmt.varint(b, p)
    size, p = fmt.varint(b, p)
    return (off, size), p


def read_block_raw(data, handle):
    off, size = handle
    if off + size + 5 > len(data): raise TableError('block handle out of range')
    body = data[off:off + size]
    ctype = data[off + size]
    crc = struct.unpack('<I', data[off + size + 1:off + size + 5])[0]
    crc_ok = fmt.unmask(crc) == fmt.crc32c(body + bytes([ctype]))
    if ctype == 0: content = body
    elif ctype == 1: content = snappy_decompress(body)
    else: raise TableError('unknown compression type %d' % ctype)
    return dict(offset=off, size=size, ctype=ctype, crc_ok=crc_ok, content=content)


def parse_block(content):
    """-> dict(entries=[(key, value, shared, offset)], restarts=[offsets])"""
    if len(content) < 4: raise TableError('block too small')
    nrest = struct.unpack('<I', content[-4:])[0]
    rs = len(content) - 4 - 4 * nrest
    if rs < 0: raise TableError('bad restart count')
    restarts = list(struct.unpack('<%dI' % nrest, content[rs:rs + 4 * nrest])) if nrest else []
    entries = []; p = 0; key = b''
    while p < rs:
        start = p
        shared, p = fmt.varint(content, p)
        non_shared, p = fmt.varint(content, p)
        vlen, p = fmt.varint(content, p)
        if shared > len(key) or p + non_shared + vlen > rs: raise TableError('bad entry')
        key = key[:shared] + content[p:p + non_shared]; p += non_shared
        val = content[p:p + vlen]; p += vlen
        entries.append((bytes(key), bytes(val), shared, start))
    return dict(entries=entries, restarts=restarts)


def read_table(data):
    """-> structure: footer, index entries [(separator, handle)], data blocks with entries, filter block, metaindex."""
    if len(data) < 48: raise TableError('file too short')
    footer = data[-48:]
    magic = struct.unpack('<Q', footer[40:])[0]
    if magic != MAGIC: raise TableError('bad magic')
    meta_h, p = read_handle(footer, 0)
    index_h, p = read_handle(footer, p)
    pad_zero = all(x == 0 for x in footer[p:40])
    idx_raw = read_block_raw(data, index_h)
    idx = parse_block(idx_raw['content'])
    meta_raw = read_block_raw(data, meta_h)
    meta = parse_block(meta_raw['content'])
    blocks = []
    for sep, hv, _, _ in idx['entries']:
        h, _ = read_handle(hv, 0)
        raw = read_block_raw(data, h)
        b = parse_block(raw['content'])
        b.update(offset=h[0], size=h[1], ctype=raw['ctype'], crc_ok=raw['crc_ok'], separator=sep, raw_len=len(raw['content']))
        blocks.append(b)
    filt = None
    for k, hv, _, _ in meta['entries']:
        if k.startswith(b'filter.'):
            h, _ = read_handle(hv, 0)
            raw = read_block_raw(data, h)
            c = raw['content']
            if len(c) < 5: raise TableError('filter block too small')
            base_lg = c[-1]
            arr_off = struct.unpack('<I', c[-5:-1])[0]
            n = (len(c) - 5 - arr_off) // 4
            offs = list(struct.unpack('<%dI' % n, c[arr_off:arr_off + 4 * n])) if n else []
            filt = dict(name=k.decode('latin1'), offset=h[0], size=h[1], base_lg=base_lg, offsets=offs, array_offset=arr_off, data=c, crc_ok=raw['crc_ok'], ctype=raw['ctype'])
    return dict(size=len(data), meta_handle=meta_h, index_handle=index_h, footer_pad_zero=pad_zero, index_crc_ok=idx_raw['crc_ok'], meta_crc_ok=meta_raw['crc_ok'],
                index=[(e[0], read_handle(e[1], 0)[0]) for e in idx['entries']], index_restarts=idx['restarts'],
                blocks=blocks, filter=filt, meta_keys=[e[0] for e in meta['entries']])


def bloom_hash(data):
    """LevelDB's Hash(data, seed=0xbc9f1d34) (murmur-like)."""
    seed = 0xbc9f1d34; m = 0xc6a4a793; r = 24
    n = len(data)
    h = (seed ^ (n * m)) & 0xFFFFFFFF
    i = 0
    while i + 4 <= n:
        w = struct.unpack('<I', data[i:i + 4])[0]; i += 4
        h = (h + w) & 0xFFFFFFFF
        h = (h * m) & 0xFFFFFFFF
        h ^= (h >> 16)
    rem = n - i
    if rem == 3:
        h = (h + (data[i + 2] << 16)) & 0xFFFFFFFF
    if rem >= 2:
        h = (h + (data[i + 1] << 8)) & 0xFFFFFFFF
    if rem >= 1:
        h = (h + data[i]) & 0xFFFFFFFF
        h = (h * m) & 0xFFFFFFFF
        h ^= (h >> r)
    return h


def bloom_may_match(filt, key):
    n = len(filt)
    if n < 2: return False
    bits = (n - 1) * 8
    k = filt[-1]
    if k > 30: return True
    h = bloom_hash(key)
    delta = ((h >> 17) | (h << 15)) & 0xFFFFFFFF
    for _ in range(k):
        pos = h % bits
        if (filt[pos // 8] & (1 << (pos % 8))) == 0: return False
        h = (h + delta) & 0xFFFFFFFF
    return True


def filter_for_offset(f, block_offset):
    idx = block_offset >> f['base_lg']
    if idx >= len(f['offsets']): return None
    start = f['offsets'][idx]
    limit = f['offsets'][idx + 1] if idx + 1 < len(f['offsets']) else f['array_offset']
    if start > limit or limit > f['array_offset']: return None
    return f['data'][start:limit]
