"""Independent decoders (written from the LevelDB format documents, not from lcdb's sources):
bitwise CRC-32C with masking, log framing, write batches, version edits."""
import struct

BLOCK = 32768
HEADER = 7
FULL, FIRST, MIDDLE, LAST = 1, 2, 3, 4

# ---- CRC-32C (Castagnoli), bitwise reference + table ----
_POLY = 0x82F63B78


def crc32c_bitwise(data, crc=0):
    crc ^= 0xFFFFFFFF
    for b in data:
        crc ^= b
        for _ in range(8):
            crc = (crc >> 1) ^ (_POLY if crc & 1 else 0)
    return crc ^ 0xFFFFFFFF


_TAB = []
for _i in range(256):
    _c = _i
    for _ in range(8):
        _c = (_c >> 1) ^ (_POLY if _c & 1 else 0)
    _TAB.append(_c)


def crc32c(data, crc=0):
    crc ^= 0xFFFFFFFF
    t = _TAB
    for b in data:
        crc = t[(crc ^ b) & 0xFF] ^ (crc >> 8)
    return crc ^ 0xFFFFFFFF


def mask(crc):
    return (((crc >> 15) | (crc << 17)) + 0xA282EAD8) & 0xFFFFFFFF


def unmask(m):
    rot = (m - 0xA282EAD8) & 0xFFFFFFFF
    return ((rot >> 17) | (rot << 15)) & 0xFFFFFFFF


def varint(b, p):
    r = 0; sh = 0
    while True:
        if p >= len(b): raise ValueError('truncated varint')
        c = b[p]; p += 1
        r |= (c & 0x7F) << sh; sh += 7
        if c < 0x80: return r, p
        if sh > 70: raise ValueError('varint too long')


def put_varint(v):
    out = bytearray()
    while v >= 0x80:
        out.append((v & 0x7F) | 0x80); v >>= 7
    out.append(v)
    return bytes(out)


# ---- log framing ----
def physical_records(data, block=BLOCK, header=HEADER, check_crc=True, initial_offset=0):
    """Yield physical records: dict(off, type, len, crc_ok, payload, pad_before). Stops at a truncated tail."""
    pos = 0; out = []
    n = len(data)
    while pos < n:
        left = block - (pos % block)
        if left < header:
            # trailer: must be zeros
            pad = data[pos:pos + left]
            out.append(dict(kind='trailer', off=pos, len=len(pad), zero=all(x == 0 for x in pad)))
            pos += left
            continue
        if pos + header > n:
            out.append(dict(kind='torn_header', off=pos, len=n - pos)); break
        crc, ln, ty = struct.unpack('<IHB', data[pos:pos + header])
        if pos + header + ln > n:
            out.append(dict(kind='torn_payload', off=pos, len=n - pos, type=ty, want=ln)); break
        pl = data[pos + header:pos + header + ln]
        ok = True
        if check_crc:
            ok = (unmask(crc) == crc32c(bytes([ty]) + pl))
        out.append(dict(kind='rec', off=pos, type=ty, len=ln, crc_ok=ok, payload=pl, end=pos + header + ln,
                        fits=(pos % block) + header + ln <= block))
        pos += header + ln
    return out


def logical_records(data, block=BLOCK, header=HEADER):
    """Complete logical records with their end offsets; stops at the first torn tail. -> [(payload, end, first_off)]"""
    out = []; cur = None; first = None
    for r in physical_records(data, block, header):
        if r['kind'] != 'rec':
            if r['kind'] in ('torn_header', 'torn_payload'): break
            continue
        if not r['crc_ok']:
            cur = None; continue
        t = r['type']
        if t == FULL:
            out.append((r['payload'], r['end'], r['off'])); cur = None
        elif t == FIRST:
            cur = bytearray(r['payload']); first = r['off']
        elif t == MIDDLE and cur is not None:
            cur += r['payload']
        elif t == LAST and cur is not None:
            cur += r['payload']; out.append((bytes(cur), r['end'], first)); cur = None
    return out


def encode_log(records, block=BLOCK, header=HEADER, initial_offset=0):
    """Independent *encoder* of the log format (the inverse of the decoder above)."""
    out = bytearray(); off = initial_offset % block
    for rec in records:
        left = len(rec); p = 0; begin = True
        while True:
            leftover = block - off
            if leftover < header:
                out += b'\0' * leftover; off = 0
            avail = block - off - header
            flen = min(left, avail)
            end = (left == flen)
            ty = FULL if begin and end else FIRST if begin else LAST if end else MIDDLE
            pl = rec[p:p + flen]
            out += struct.pack('<IHB', mask(crc32c(bytes([ty]) + pl)), flen, ty) + pl
            off += header + flen; p += flen; left -= flen; begin = False
            if end: break
    return bytes(out)


# ---- write batch ----
def decode_batch(pl):
    """-> dict(seq, count, ops=[(type, key, value)]) ; type 1 = value, 0 = deletion."""
    if len(pl) < 12: raise ValueError('batch too small')
    seq, cnt = struct.unpack('<QI', pl[:12]); p = 12; ops = []
    for _ in range(cnt):
        tag = pl[p]; p += 1
        n, p = varint(pl, p); k = pl[p:p + n]; p += n
        if len(k) != n: raise ValueError('truncated key')
        v = None
        if tag == 1:
            n, p = varint(pl, p); v = pl[p:p + n]; p += n
            if len(v) != n: raise ValueError('truncated value')
        elif tag != 0:
            raise ValueError('bad tag %d' % tag)
        ops.append((tag, bytes(k), None if v is None else bytes(v)))
    if p != len(pl): raise ValueError('trailing bytes in batch')
    return dict(seq=seq, count=cnt, ops=ops)


# ---- version edit ----
def decode_edit(pl):
    p = 0
    e = dict(comparator=None, log=None, prevlog=None, nextfile=None, lastseq=None, compact=[], deleted=[], added=[])
    while p < len(pl):
        tag, p = varint(pl, p)
        if tag == 1:
            n, p = varint(pl, p); e['comparator'] = bytes(pl[p:p + n]).decode('latin1'); p += n
        elif tag == 2: e['log'], p = varint(pl, p)
        elif tag == 9: e['prevlog'], p = varint(pl, p)
        elif tag == 3: e['nextfile'], p = varint(pl, p)
        elif tag == 4: e['lastseq'], p = varint(pl, p)
        elif tag == 5:
            lv, p = varint(pl, p); n, p = varint(pl, p); e['compact'].append((lv, bytes(pl[p:p + n]))); p += n
        elif tag == 6:
            lv, p = varint(pl, p); num, p = varint(pl, p); e['deleted'].append((lv, num))
        elif tag == 7:
            lv, p = varint(pl, p); num, p = varint(pl, p); sz, p = varint(pl, p)
            n, p = varint(pl, p); sm = bytes(pl[p:p + n]); p += n
            n, p = varint(pl, p); lg = bytes(pl[p:p + n]); p += n
            e['added'].append((lv, num, sz, sm, lg))
        else:
            raise ValueError('unknown edit tag %d' % tag)
    if p != len(pl): raise ValueError('edit overrun')
    return e


def encode_edit(e):
    """The LevelDB VersionEdit encoding, fields in the canonical order (comparator, log, prev log, next file, last sequence,
    compact pointers, deleted files, new files)."""
    out = bytearray()
    def lp(b): return put_varint(len(b)) + bytes(b)
    if e.get('comparator') is not None: out += put_varint(1) + lp(e['comparator'].encode('latin1'))
    if e.get('log') is not None: out += put_varint(2) + put_varint(e['log'])
    if e.get('prevlog') is not None: out += put_varint(9) + put_varint(e['prevlog'])
    if e.get('nextfile') is not None: out += put_varint(3) + put_varint(e['nextfile'])
    if e.get('lastseq') is not None: out += put_varint(4) + put_varint(e['lastseq'])
    for lv, k in e.get('compact', []): out += put_varint(5) + put_varint(lv) + lp(k)
    for lv, num in e.get('deleted', []): out += put_varint(6) + put_varint(lv) + put_varint(num)
    for lv, num, sz, sm, lg in e.get('added', []): out += put_varint(7) + put_varint(lv) + put_varint(num) + put_varint(sz) + lp(sm) + lp(lg)
    return bytes(out)
