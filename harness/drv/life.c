/* life.c - lifecycle operations from two cooperating processes (C20).
 * usage: life <seed> <steps> <trace> <basedir>
 * Process 0 (parent) drives; process 1 (forked child) executes open / close / scan on request, because
 * fcntl locks are per process: exclusivity must be probed from another process.
 * Every operation and its result is an event; LifeTrace.tla decides.
 */
#include "drvlib.h"
#include <sys/wait.h>
#include <sys/types.h>

static char base[900], dbdir[1024];
static ldb_t *H[3];             /* parent's handles 1, 2 */
static int to_child[2], from_child[2];
static d_opts_t O;
static int nextid = 1;
static int created = 0;
static int keepn = 0; static char keepdir[1100];   /* a backup that is kept: later backups / copies onto it must be refused and leave it intact */

static void scan_to(ldb_t *db, char *buf, int *status) {
  ldb_iter_t *it = ldb_iterator(db, NULL); int n = 0, p = 0;
  for (ldb_iter_first(it); ldb_iter_valid(it); ldb_iter_next(it)) { ldb_slice_t k = ldb_iter_key(it), v = ldb_iter_value(it); p += sprintf(buf + p, "%s[%d,%d]", n++ ? "," : "", d_rankof(k), d_valid(v.data, v.size)); }
  *status = ldb_iter_status(it); ldb_iter_destroy(it); buf[p] = 0;
}

/* ---- child: one handle ---- */
static void child_loop(void) {
  ldb_t *db = NULL; char cmd[64]; FILE *in = fdopen(to_child[0], "r"), *out = fdopen(from_child[1], "w");
  while (fgets(cmd, sizeof(cmd), in)) {
    if (!strncmp(cmd, "open", 4)) { int rc = db ? -100 : ldb_open(dbdir, &O.o, &db); if (rc != 0) db = NULL; fprintf(out, "%d\n", rc); }
    else if (!strncmp(cmd, "close", 5)) { if (db) { ldb_close(db); db = NULL; } fprintf(out, "0\n"); }
    else if (!strncmp(cmd, "put", 3)) { int k, id, rc = -100; sscanf(cmd, "put %d %d", &k, &id); if (db) { char *v = d_mkval(id, 20); ldb_slice_t key = d_key(k), val = ldb_slice(v, 20); rc = ldb_put(db, &key, &val, NULL); free(v); } fprintf(out, "%d\n", rc); }
    else if (!strncmp(cmd, "scan", 4)) { static char buf[8192]; int st = -100; buf[0] = 0; if (db) scan_to(db, buf, &st); fprintf(out, "%d [%s]\n", st, buf); }
    else if (!strncmp(cmd, "quit", 4)) break;
    fflush(out);
  }
  if (db) ldb_close(db);
  _exit(0);
}
static int child_cmd(const char *cmd, char *reply, size_t n) {
  FILE *f; static FILE *in = NULL; ssize_t w = write(to_child[1], cmd, strlen(cmd)); (void)w;
  if (!in) in = fdopen(from_child[0], "r");
  f = in; if (!fgets(reply, (int)n, f)) return -999;
  return atoi(reply);
}

static void ev_ls(const char *name, const char *dir) { d_ev_ls(name, dir); }

int main(int argc, char **argv) {
  int seed, steps, i; pid_t pid; char reply[9000], bak[1100], foreign[1100]; int child_open = 0, nbak = 0; static char buf[8192];
  d_opts_t W;
  if (argc < 5) return 2;
  seed = atoi(argv[1]); steps = atoi(argv[2]); snprintf(base, sizeof(base), "%s", argv[4]);
  d_seed((uint64_t)seed * 48271ULL + 5); d_init_keys();
  d_make_opts(&O, d_rnd() & ~(3u << 15)); d_set_comparator(0); O.o.comparator = NULL;
  d_make_opts(&W, 0); W.o.comparator = d_set_comparator(1); d_set_comparator(0);      /* a different comparator */
  d_rmrf(base); mkdir(base, 0755);
  snprintf(dbdir, sizeof(dbdir), "%s/db", base);
  if (pipe(to_child) || pipe(from_child)) return 2;
  pid = fork();
  if (pid == 0) { close(to_child[1]); close(from_child[0]); child_loop(); }
  close(to_child[0]); close(from_child[1]);
  lcdb_verif_open(argv[3]); lcdb_verif_quiet(1);
  EV("Reset", "\"seed\":%d", seed);
  /* a foreign file that must survive everything, created once the directory exists */
  snprintf(foreign, sizeof(foreign), "%s/notes.txt", dbdir);
  for (i = 0; i < steps; i++) {
    uint32_t r = d_rn(100); int h = 1 + d_rn(2), rc;
    if (r < 18) {           /* parent opens handle h (a second handle on an open database must be refused) */
      if (H[h]) continue;
      rc = ldb_open(dbdir, &O.o, &H[h]); if (rc != 0) H[h] = NULL;
      EV("open", "\"p\":0,\"h\":%d,\"rc\":%d", h, rc);
      if (rc == 0) { FILE *f = fopen(foreign, "a"); created = 1; if (f) { fputs("keep me\n", f); fclose(f); } }
    } else if (r < 30) {    /* parent closes */
      if (!H[h]) continue;
      ldb_close(H[h]); H[h] = NULL; EV("close", "\"p\":0,\"h\":%d", h);
    } else if (r < 45) {    /* child tries to open */
      if (child_open) continue;
      rc = child_cmd("open\n", reply, sizeof(reply)); if (rc == 0) { child_open = 1; created = 1; }
      EV("open", "\"p\":1,\"h\":1,\"rc\":%d", rc);
    } else if (r < 55) {
      if (!child_open) continue;
      child_cmd("close\n", reply, sizeof(reply)); child_open = 0; EV("close", "\"p\":1,\"h\":1");
    } else if (r < 72) {    /* a write through whoever holds the database */
      int k = d_rn(NK), id = nextid++;
      if (H[1] || H[2]) { ldb_t *db = H[1] ? H[1] : H[2]; char *v = d_mkval(id, 20); ldb_slice_t key = d_key(k), val = ldb_slice(v, 20); rc = ldb_put(db, &key, &val, NULL); free(v); EV("put", "\"p\":0,\"k\":%d,\"v\":%d,\"rc\":%d", k, id, rc); if (d_rn(4) == 0) ldb_test_compact_memtable(db); }
      else if (child_open) { char cmd[64]; sprintf(cmd, "put %d %d\n", k, id); rc = child_cmd(cmd, reply, sizeof(reply)); EV("put", "\"p\":1,\"k\":%d,\"v\":%d,\"rc\":%d", k, id, rc); }
    } else if (r < 80) {    /* backup of the open database, then open the backup and scan it */
      ldb_t *db = H[1] ? H[1] : H[2], *bdb; int st;
      if (!db) continue;
      if (keepn && d_rn(2) == 0) {
        /* the target already holds a database: the call must be refused and must not touch what is there */
        int which = d_rn(3);
        if (which == 0) { rc = ldb_backup(db, keepdir); EV("backup_over", "\"n\":%d,\"rc\":%d", keepn, rc); }
        else if (which == 1) { rc = ldb_backup(db, dbdir); EV("backup_self", "\"rc\":%d", rc); buf[0] = 0; st = -1; scan_to(db, buf, &st); EV("scan", "\"p\":0,\"status\":%d,\"items\":[%s]", st, buf); }
        else { rc = ldb_copy(dbdir, keepdir, &O.o); EV("copy_over", "\"n\":%d,\"rc\":%d", keepn, rc); }
        rc = ldb_open(keepdir, &O.o, &bdb); buf[0] = 0; st = -1;
        if (rc == 0) { scan_to(bdb, buf, &st); ldb_close(bdb); }
        EV("backup_scan", "\"n\":%d,\"rc\":%d,\"status\":%d,\"items\":[%s]", keepn, rc, st, buf);
        continue;
      }
      snprintf(bak, sizeof(bak), "%s/bak%d", base, ++nbak);
      rc = ldb_backup(db, bak);
      EV("backup", "\"n\":%d,\"rc\":%d", nbak, rc);
      if (rc == 0) {
        /* the source keeps being used before the backup is first opened: later writes, a flush and a compaction
           must never show up in (or break) the backup */
        int j, nw = d_rn(4);
        for (j = 0; j < nw; j++) { int k = d_rn(NK), id = nextid++, wrc; char *v = d_mkval(id, 20); ldb_slice_t key = d_key(k), val = ldb_slice(v, 20);
          wrc = ldb_put(db, &key, &val, NULL); free(v); EV("put", "\"p\":0,\"k\":%d,\"v\":%d,\"rc\":%d", k, id, wrc); }
        if (nw && d_rn(2)) { ldb_test_compact_memtable(db); if (d_rn(2)) ldb_test_compact_range(db, 0, NULL, NULL); }
        rc = ldb_open(bak, &O.o, &bdb); buf[0] = 0; st = -1;
        if (rc == 0) { scan_to(bdb, buf, &st); ldb_close(bdb); }
        EV("backup_scan", "\"n\":%d,\"rc\":%d,\"status\":%d,\"items\":[%s]", nbak, rc, st, buf);
        if (!keepn && rc == 0) { keepn = nbak; snprintf(keepdir, sizeof(keepdir), "%s", bak); }   /* keep this one */
        else d_rmrf(bak);
      }
    } else if (r < 85) {    /* copy of a closed database (while it is open the copy must be refused, and must not break the lock) */
      ldb_t *bdb; int st;
      snprintf(bak, sizeof(bak), "%s/cp%d", base, ++nbak);
      rc = ldb_copy(dbdir, bak, &O.o);
      EV("copy", "\"n\":%d,\"rc\":%d", nbak, rc);
      if (rc == 0) { rc = ldb_open(bak, &O.o, &bdb); buf[0] = 0; st = -1; if (rc == 0) { scan_to(bdb, buf, &st); ldb_close(bdb); } EV("copy_scan", "\"n\":%d,\"rc\":%d,\"status\":%d,\"items\":[%s]", nbak, rc, st, buf); d_rmrf(bak); }
    } else if (r < 90) {    /* open with another comparator: refused, nothing modified */
      ldb_t *x = NULL;
      if (!created) continue;
      ev_ls("ls_before", dbdir);
      rc = ldb_open(dbdir, &W.o, &x);
      EV("open_wrongcmp", "\"rc\":%d", rc);
      if (rc == 0) { ldb_close(x); }
      ev_ls("ls_after", dbdir);
    } else if (r < 94) {    /* scan through the holder: the source stays usable and unchanged */
      int st = -1; buf[0] = 0;
      if (H[1] || H[2]) { scan_to(H[1] ? H[1] : H[2], buf, &st); EV("scan", "\"p\":0,\"status\":%d,\"items\":[%s]", st, buf); }
      else if (child_open) { char *sp; child_cmd("scan\n", reply, sizeof(reply)); sp = strchr(reply, '['); if (sp) { sp[strlen(sp) - 1] = 0; EV("scan", "\"p\":1,\"status\":%d,\"items\":%s", atoi(reply), sp); } }
    } else {                /* destroy: only when nobody holds it this is expected to succeed */
      rc = ldb_destroy(dbdir, &O.o);
      if (rc == 0) created = 0;
      EV("destroy", "\"rc\":%d", rc);
      ev_ls("ls_destroyed", dbdir);
    }
  }
  if (H[1]) ldb_close(H[1]);
  if (H[2]) ldb_close(H[2]);
  child_cmd("quit\n", reply, sizeof(reply));
  waitpid(pid, NULL, 0);
  lcdb_verif_close();
  d_rmrf(base);
  return 0;
}
