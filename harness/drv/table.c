/* table.c - builds and reads table files through lcdb's table layer (ldb_tablegen_*, ldb_table_*).
 *   table build <spec> <out.ldb> <results>
 *   table read  <spec> <in.ldb> <results>        (table produced by someone else, e.g. genuine LevelDB)
 * spec: line 1 "block_size restart_interval snappy bloom_bits mmap"
 *       then "E <hex internal key> <vallen> <valseed>" in internal-key order, then "TESTS", then
 *       "seek <hex ikey>" | "get <hex ikey>" | "scan" | "walk <seed> <steps>"
 * results: one JSON line per test; entries are identified by their 1-based index in the spec (0 = not valid, -1 = unknown key)
 */
#define _GNU_SOURCE
#include <stdio.h>
#include <stdlib.h>
#include <string.h>
#include <stdint.h>
#include "table/table.h"
#include "table/table_builder.h"
#include "table/iterator.h"
#include "util/env.h"
#include "util/options.h"
#include "util/comparator.h"
#include "util/bloom.h"
#include "util/cache.h"
#include "util/buffer.h"
#include "util/slice.h"
#include "util/status.h"
#include "util/crc32c.h"
#include "dbformat.h"

typedef struct { unsigned char *k; size_t kn; size_t vn; int vseed; } ent_t;
static ent_t *E; static int NE = 0, CAPE = 0;

static size_t unhex(const char *h, unsigned char **out) {
  size_t n = strlen(h) / 2, i; unsigned char *p = malloc(n + 1);
  for (i = 0; i < n; i++) { unsigned int b; sscanf(h + 2 * i, "%2x", &b); p[i] = (unsigned char)b; }
  *out = p; return n;
}
static unsigned char vbyte(int seed, size_t i) { return (unsigned char)((seed * 131 + (int)i * 7) & 255); }
/* value generator: seed >= 0: a periodic pattern; seed < 0: (n - r) bytes of a 16-byte pattern followed by r = -seed - 1 bytes without
   repeated 4-byte sequences, so that the Snappy encoding of the block ends in a literal run whose length is controlled by r */
static void fill_value(unsigned char *vb, size_t n, int seed) {
  size_t i;
  if (seed >= 0) { for (i = 0; i < n; i++) vb[i] = vbyte(seed, i); return; }
  { size_t r = (size_t)(-seed - 1), P = r <= n ? n - r : 0; uint32_t x = 12345u + (uint32_t)r * 2654435761u;
    for (i = 0; i < P; i++) vb[i] = (unsigned char)(((i % 16) * 13 + 1) & 255);
    for (i = P; i < n; i++) { x = x * 1103515245u + 12345u; vb[i] = (unsigned char)((x >> 16) & 255); } }
}
static int find_entry(const ldb_slice_t *k) {
  int i; for (i = 0; i < NE; i++) if (E[i].kn == k->size && memcmp(E[i].k, k->data, k->size) == 0) return i + 1; return -1;
}
static int value_ok(int idx, const ldb_slice_t *v) {
  size_t i; unsigned char *want; int ok = 1; if (idx < 1) return 0; if (v->size != E[idx - 1].vn) return 0;
  want = malloc(v->size + 1); fill_value(want, v->size, E[idx - 1].vseed);
  for (i = 0; i < v->size; i++) if (v->data[i] != want[i]) { ok = 0; break; }
  free(want); return ok;
}
static int got_idx, got_ok;
static void on_get(void *arg, const ldb_slice_t *k, const ldb_slice_t *v) { (void)arg; got_idx = find_entry(k); got_ok = value_ok(got_idx, v); }

int main(int argc, char **argv) {
  FILE *sp, *out; char *line = NULL; size_t cap = 0; ssize_t n; int building; ldb_dbopt_t opt; ldb_comparator_t ikc; ldb_bloom_t ifp; ldb_bloom_t *ub = NULL;
  int block_size, restart, snappy, bloom, use_mmap; ldb_table_t *table = NULL; ldb_rfile_t *rf = NULL; uint64_t fsize = 0; int rc; int in_tests = 0;
  if (argc != 5) { fprintf(stderr, "usage: table build|read spec file results\n"); return 2; }
  building = !strcmp(argv[1], "build");
  ldb_crc32c_init();
  sp = fopen(argv[2], "r"); out = fopen(argv[4], "w"); if (!sp || !out) return 2;
  if (getline(&line, &cap, sp) < 0 || sscanf(line, "%d %d %d %d %d", &block_size, &restart, &snappy, &bloom, &use_mmap) != 5) return 2;
  opt = *ldb_dbopt_default;
  ldb_ikc_init(&ikc, ldb_bytewise_comparator);
  opt.comparator = &ikc; opt.block_size = block_size; opt.block_restart_interval = restart;
  opt.compression = snappy ? LDB_SNAPPY_COMPRESSION : LDB_NO_COMPRESSION; opt.paranoid_checks = 1;
  opt.block_cache = use_mmap & 2 ? ldb_lru_create(1 << 16) : NULL; opt.filter_policy = NULL;
  if (bloom > 0) { ub = ldb_bloom_create(bloom); ldb_ifp_init(&ifp, ub); opt.filter_policy = &ifp; }
  while ((n = getline(&line, &cap, sp)) >= 0) {
    char a[16]; static char hex[4 << 20]; int x = 0, y = 0;
    if (line[0] == 'E' && !in_tests) {
      if (sscanf(line, "E %s %d %d", hex, &x, &y) != 3) return 2;
      if (NE == CAPE) { CAPE = CAPE ? CAPE * 2 : 1024; E = realloc(E, CAPE * sizeof(ent_t)); }
      E[NE].kn = unhex(hex, &E[NE].k); E[NE].vn = (size_t)x; E[NE].vseed = y; NE++;
      continue;
    }
    if (!strncmp(line, "TESTS", 5)) {
      in_tests = 1;
      if (building) {
        ldb_wfile_t *wf; ldb_tablegen_t *tb; int i;
        if (ldb_truncfile_create(argv[3], &wf) != LDB_OK) return 3;
        tb = ldb_tablegen_create(&opt, wf);
        for (i = 0; i < NE; i++) {
          ldb_slice_t k, v; unsigned char *vb = malloc(E[i].vn + 1); size_t j;
          fill_value(vb, E[i].vn, E[i].vseed); (void)j;
          ldb_slice_set(&k, E[i].k, E[i].kn); ldb_slice_set(&v, vb, E[i].vn);
          ldb_tablegen_add(tb, &k, &v); free(vb);
        }
        rc = ldb_tablegen_finish(tb);
        fprintf(out, "{\"e\":\"built\",\"rc\":%d,\"entries\":%lu,\"size\":%lu}\n", rc, (unsigned long)ldb_tablegen_entries(tb), (unsigned long)ldb_tablegen_size(tb));
        ldb_tablegen_destroy(tb);
        if (rc == LDB_OK) rc = ldb_wfile_sync(wf);
        if (rc == LDB_OK) rc = ldb_wfile_close(wf);
        ldb_wfile_destroy(wf);
        if (rc != LDB_OK) return 3;
      }
      if (ldb_file_size(argv[3], &fsize) != LDB_OK) return 3;
      if (ldb_randfile_create(argv[3], &rf, use_mmap & 1) != LDB_OK) return 3;
      rc = ldb_table_open(&opt, rf, fsize, &table);
      fprintf(out, "{\"e\":\"opened\",\"rc\":%d,\"size\":%lu}\n", rc, (unsigned long)fsize);
      if (rc != LDB_OK) { fclose(out); return 0; }
      continue;
    }
    if (!in_tests || sscanf(line, "%15s", a) != 1) continue;
    if (!strcmp(a, "seek") || !strcmp(a, "get")) {
      unsigned char *tk; size_t tn; ldb_slice_t t; ldb_readopt_t ro = *ldb_readopt_default;
      sscanf(line, "%*s %s", hex); tn = unhex(hex, &tk); ldb_slice_set(&t, tk, tn); ro.verify_checksums = 1;
      if (a[0] == 's') {
        ldb_iter_t *it = ldb_tableiter_create(table, &ro); int idx = 0, ok = 1;
        ldb_iter_seek(it, &t);
        if (ldb_iter_valid(it)) { ldb_slice_t k = ldb_iter_key(it), v = ldb_iter_value(it); idx = find_entry(&k); ok = value_ok(idx, &v); }
        fprintf(out, "{\"e\":\"seek\",\"r\":%d,\"vok\":%d,\"st\":%d}\n", idx, ok, ldb_iter_status(it));
        ldb_iter_destroy(it);
      } else {
        got_idx = 0; got_ok = 1;
        rc = ldb_table_internal_get(table, &ro, &t, NULL, on_get);
        fprintf(out, "{\"e\":\"get\",\"r\":%d,\"vok\":%d,\"st\":%d}\n", got_idx, got_ok, rc);
      }
      free(tk);
    } else if (!strcmp(a, "scan")) {
      ldb_readopt_t ro = *ldb_readopt_default; ldb_iter_t *it; int i = 0, good = 1, back = 1; ro.verify_checksums = 1;
      it = ldb_tableiter_create(table, &ro);
      for (ldb_iter_first(it); ldb_iter_valid(it); ldb_iter_next(it)) { ldb_slice_t k = ldb_iter_key(it), v = ldb_iter_value(it); i++; if (find_entry(&k) != i || !value_ok(i, &v)) good = 0; }
      { int j = NE + 1; int cnt = 0; for (ldb_iter_last(it); ldb_iter_valid(it); ldb_iter_prev(it)) { ldb_slice_t k = ldb_iter_key(it); j--; cnt++; if (find_entry(&k) != j) back = 0; } if (cnt != NE) back = 0; }
      fprintf(out, "{\"e\":\"scan\",\"n\":%d,\"fwd_ok\":%d,\"bwd_ok\":%d,\"st\":%d}\n", i, good, back, ldb_iter_status(it));
      ldb_iter_destroy(it);
    } else if (!strcmp(a, "walk")) {
      /* random next/prev/seek walk: the position must always be the expected neighbour */
      unsigned int seed = 1; int steps = 0, pos = 0, bad = 0, s; ldb_readopt_t ro = *ldb_readopt_default; ldb_iter_t *it;
      sscanf(line, "%*s %u %d", &seed, &steps); it = ldb_tableiter_create(table, &ro);
      for (s = 0; s < steps; s++) {
        unsigned int r = (seed = seed * 1103515245u + 12345u) >> 16;
        if (pos == 0 || r % 5 == 0) { int tgt = NE ? (int)(r % NE) : 0; ldb_slice_t t; if (!NE) break; ldb_slice_set(&t, E[tgt].k, E[tgt].kn); ldb_iter_seek(it, &t); pos = tgt + 1; }
        else if (r % 2) { ldb_iter_next(it); pos = pos == NE ? 0 : pos + 1; }
        else { ldb_iter_prev(it); pos = pos - 1; }
        if (pos == 0) { if (ldb_iter_valid(it)) bad++; }
        else { ldb_slice_t k; if (!ldb_iter_valid(it)) { bad++; pos = 0; continue; } k = ldb_iter_key(it); if (find_entry(&k) != pos) bad++; }
      }
      fprintf(out, "{\"e\":\"walk\",\"steps\":%d,\"bad\":%d,\"st\":%d}\n", steps, bad, ldb_iter_status(it));
      ldb_iter_destroy(it);
    }
  }
  if (table) ldb_table_destroy(table);
  if (rf) ldb_rfile_destroy(rf);
  fclose(out);
  return 0;
}
