/* drvlib.h - shared helpers for the verification drivers (header only). */
#ifndef DRVLIB_H
#define DRVLIB_H
#define _GNU_SOURCE
#include <dirent.h>
#include <errno.h>
#include <stdint.h>
#include <stdio.h>
#include <stdlib.h>
#include <string.h>
#include <sys/stat.h>
#include <unistd.h>
#include <lcdb.h>
#include "verif_rt.h"

/* internal entry points exported by the library */
int ldb_test_compact_memtable(ldb_t *db);
void ldb_test_compact_range(ldb_t *db, int level, const ldb_slice_t *begin, const ldb_slice_t *end);

#define EV lcdb_verif_ev

/* ---------------- PRNG ---------------- */
static uint64_t d_rs = 88172645463325252ULL;
static void d_seed(uint64_t s) { d_rs = 88172645463325252ULL ^ (s * 0x9E3779B97F4A7C15ULL); if (!d_rs) d_rs = 1; d_rs ^= d_rs << 13; d_rs ^= d_rs >> 7; d_rs ^= d_rs << 17; }
static uint32_t d_rnd(void) { d_rs ^= d_rs << 13; d_rs ^= d_rs >> 7; d_rs ^= d_rs << 17; return (uint32_t)(d_rs >> 11); }
static uint32_t d_rn(uint32_t n) { return n ? d_rnd() % n : 0; }

/* ---------------- keys ---------------- */
#define NK 16
static unsigned char d_keybuf[NK][128];
static size_t d_keylen[NK];
static int d_rank2idx[NK]; /* rank -> index in d_keybuf */
static int d_idx2rank[NK];
static int d_cmpkind = 0;  /* 0 bytewise, 1 reverse, 2 length-first */

static void d_setkey(int i, const char *s, size_t n) { memcpy(d_keybuf[i], s, n); d_keylen[i] = n; }
static void d_init_keys(void) {
  int i;
  d_setkey(0, "", 0);
  d_setkey(1, "\x00", 1);
  d_setkey(2, "\x00\x00", 2);
  d_setkey(3, "a", 1);
  d_setkey(4, "a\x00", 2);
  d_setkey(5, "ab", 2);
  d_setkey(6, "abc", 3);
  d_setkey(7, "abd", 3);
  d_setkey(8, "a\xff", 2);
  d_setkey(9, "a\xff\xff", 3);
  d_setkey(10, "b", 1);
  for (i = 0; i < 100; i++) d_keybuf[11][i] = 'k';
  d_keylen[11] = 100;
  memcpy(d_keybuf[12], d_keybuf[11], 100); d_keybuf[12][100] = '1'; d_keylen[12] = 101;
  d_setkey(13, "z", 1);
  d_setkey(14, "\xff", 1);
  d_setkey(15, "\xff\xff", 2);
}

static int d_bytecmp(const void *a, size_t an, const void *b, size_t bn) {
  size_t n = an < bn ? an : bn;
  int r = n ? memcmp(a, b, n) : 0;
  if (r == 0) r = (an > bn) - (an < bn);
  return r;
}
static int d_usercmp(const void *a, size_t an, const void *b, size_t bn) {
  if (d_cmpkind == 1) return d_bytecmp(b, bn, a, an);
  if (d_cmpkind == 2) { if (an != bn) return an < bn ? -1 : 1; return d_bytecmp(a, an, b, bn); }
  return d_bytecmp(a, an, b, bn);
}
static int d_cmp_cb(const ldb_comparator_t *c, const ldb_slice_t *x, const ldb_slice_t *y) {
  (void)c; return d_usercmp(x->data, x->size, y->data, y->size);
}
static void d_sep_cb(const ldb_comparator_t *c, ldb_slice_t *s, const ldb_slice_t *l) { (void)c; (void)s; (void)l; }
static void d_succ_cb(const ldb_comparator_t *c, ldb_slice_t *k) { (void)c; (void)k; }
static ldb_comparator_t d_cmp_reverse = {"verif.reverse", d_cmp_cb, d_sep_cb, d_succ_cb, NULL, NULL};
static ldb_comparator_t d_cmp_lenfirst = {"verif.lenfirst", d_cmp_cb, d_sep_cb, d_succ_cb, NULL, NULL};

static const ldb_comparator_t *d_set_comparator(int kind) {
  int i, j;
  d_cmpkind = kind;
  /* ranks are computed with the configured comparator, never written by hand */
  for (i = 0; i < NK; i++) {
    int r = 0;
    for (j = 0; j < NK; j++)
      if (d_usercmp(d_keybuf[j], d_keylen[j], d_keybuf[i], d_keylen[i]) < 0) r++;
    d_idx2rank[i] = r; d_rank2idx[r] = i;
  }
  return kind == 1 ? &d_cmp_reverse : kind == 2 ? &d_cmp_lenfirst : NULL;
}
static ldb_slice_t d_key(int rank) { int i = d_rank2idx[rank]; return ldb_slice(d_keybuf[i], d_keylen[i]); }
static int d_rankof(ldb_slice_t k) {
  int i;
  for (i = 0; i < NK; i++)
    if (k.size == d_keylen[i] && (k.size == 0 || memcmp(k.data, d_keybuf[i], k.size) == 0)) return d_idx2rank[i];
  return -1;
}

/* ---------------- values: id repeated to a chosen length ---------------- */
static char *d_mkval(int id, size_t len) {
  char *p = malloc(len + 8); size_t i;
  if (len < 5) len = 5;
  for (i = 0; i < len; i++) p[i] = (char)('A' + (id * 7 + (int)i) % 26);
  p[0] = (char)(id & 255); p[1] = (char)((id >> 8) & 255); p[2] = (char)((id >> 16) & 255); p[3] = 0x7f;
  p[4] = (char)('a' + (len % 26));
  return p;
}
/* returns id, -1 if not one of ours, -2 if body damaged */
static int d_valid(const void *data, size_t size) {
  const unsigned char *d = data; int id; size_t i;
  if (size < 5 || d[3] != 0x7f) return -1;
  id = d[0] | d[1] << 8 | d[2] << 16;
  if (d[4] != 'a' + (size % 26)) return -2;
  for (i = 5; i < size; i++) if (d[i] != 'A' + (id * 7 + (int)i) % 26) return -2;
  return id ? id : -1;
}

/* ---------------- options from a seed ---------------- */
typedef struct d_opts_s {
  ldb_dbopt_t o;
  int cmpkind, bloom, cache_kind;
  ldb_lru_t *cache;
} d_opts_t;

static void d_make_opts(d_opts_t *d, uint32_t bits) {
  static const size_t wb[4] = {64 << 10, 128 << 10, 256 << 10, 1 << 20};
  static const size_t bs[4] = {1 << 10, 2 << 10, 4 << 10, 64 << 10};
  static const int ri[4] = {1, 2, 16, 5};
  d->o = *ldb_dbopt_default;
  d->o.create_if_missing = 1;
  d->o.paranoid_checks = (bits >> 0) & 1;
  d->o.write_buffer_size = wb[(bits >> 1) & 3];
  if ((bits >> 17) & 1) d->o.write_buffer_size = 16 << 20; /* scripted runs with values above max_file_size: no automatic switch */
  d->o.block_size = bs[(bits >> 3) & 3];
  d->o.block_restart_interval = ri[(bits >> 5) & 3];
  d->o.max_file_size = ((bits >> 7) & 1) ? (2 << 20) : (1 << 20);
  d->o.compression = ((bits >> 8) & 1) ? LDB_SNAPPY_COMPRESSION : LDB_NO_COMPRESSION;
  d->bloom = (bits >> 9) & 1;
  d->o.filter_policy = d->bloom ? ldb_bloom_default : NULL;
  d->o.use_mmap = (bits >> 10) & 1;
  d->o.reuse_logs = (bits >> 11) & 1;
  d->cache_kind = (bits >> 12) & 3; /* 0 default, 1 tiny, 2 zero-capacity, 3 default */
  d->cache = NULL;
  if (d->cache_kind == 1) d->cache = ldb_lru_create(4096);
  if (d->cache_kind == 2) d->cache = ldb_lru_create(0);
  d->o.block_cache = d->cache;
  d->o.max_open_files = ((bits >> 14) & 1) ? 74 : 1000; /* 74 = minimum: forces table-cache eviction */
  d->cmpkind = ((bits >> 15) & 3) % 3;
  d->o.comparator = d_set_comparator(d->cmpkind);
}
static void d_free_opts(d_opts_t *d) { if (d->cache) ldb_lru_destroy(d->cache); d->cache = NULL; }
static void d_ev_opts(const d_opts_t *d, const char *extra) {
  EV("opts", "\"wb\":%lu,\"bs\":%lu,\"ri\":%d,\"mfs\":%lu,\"snappy\":%d,\"bloom\":%d,\"mmap\":%d,\"reuse\":%d,\"cache\":%d,\"mof\":%d,\"cmp\":%d,\"paranoid\":%d%s",
     (unsigned long)d->o.write_buffer_size, (unsigned long)d->o.block_size, d->o.block_restart_interval,
     (unsigned long)d->o.max_file_size, d->o.compression == LDB_SNAPPY_COMPRESSION, d->bloom, d->o.use_mmap,
     d->o.reuse_logs, d->cache_kind, d->o.max_open_files, d->cmpkind, d->o.paranoid_checks, extra ? extra : "");
}

/* the key table in rank order (hex), so that projections can map decoded keys to ranks */
static void d_ev_keys(void) {
  int r; size_t j;
  lcdb_verif_begin("keys");
  lcdb_verif_add("\"cmp\":%d,\"hex\":[", d_cmpkind);
  for (r = 0; r < NK; r++) {
    int i = d_rank2idx[r];
    lcdb_verif_add("%s\"", r ? "," : "");
    for (j = 0; j < d_keylen[i]; j++) lcdb_verif_add("%02x", d_keybuf[i][j]);
    lcdb_verif_add("\"");
  }
  lcdb_verif_add("]");
  lcdb_verif_end();
}

/* ---------------- filesystem helpers ---------------- */
static void d_rmrf(const char *path) {
  DIR *d = opendir(path); struct dirent *e; char p[1200];
  if (d != NULL) {
    while ((e = readdir(d)) != NULL) {
      if (!strcmp(e->d_name, ".") || !strcmp(e->d_name, "..")) continue;
      snprintf(p, sizeof(p), "%s/%s", path, e->d_name);
      if (e->d_type == DT_DIR) d_rmrf(p); else unlink(p);
    }
    closedir(d);
    rmdir(path);
  }
}
/* emit a directory listing event: names sorted for determinism */
static int d_strcmp_p(const void *a, const void *b) { return strcmp(*(char *const *)a, *(char *const *)b); }
static void d_ev_ls(const char *evname, const char *path) {
  DIR *d = opendir(path); struct dirent *e; char *names[2048]; int n = 0, i;
  if (d == NULL) { EV(evname, "\"err\":%d,\"names\":[]", errno); return; }
  while ((e = readdir(d)) != NULL && n < 2048) {
    if (!strcmp(e->d_name, ".") || !strcmp(e->d_name, "..")) continue;
    names[n++] = strdup(e->d_name);
  }
  closedir(d);
  qsort(names, n, sizeof(char *), d_strcmp_p);
  lcdb_verif_begin(evname);
  lcdb_verif_add("\"names\":[");
  for (i = 0; i < n; i++) { lcdb_verif_add("%s\"%s\"", i ? "," : "", names[i]); free(names[i]); }
  lcdb_verif_add("]");
  lcdb_verif_end();
}
/* emit the reported level structure (leveldb.sstables) verbatim, escaped */
static void d_ev_sstables(ldb_t *db, const char *evname) {
  char *v = NULL; const char *p;
  if (!ldb_property(db, "leveldb.sstables", &v) || v == NULL) { EV(evname, "\"text\":\"\""); return; }
  lcdb_verif_begin(evname);
  lcdb_verif_add("\"text\":\"");
  for (p = v; *p; p++) {
    unsigned char c = (unsigned char)*p;
    if (c == '\n') lcdb_verif_add("\\n");
    else if (c == '"') lcdb_verif_add("\\\"");
    else if (c == '\\') lcdb_verif_add("\\\\");
    else if (c < 32 || c > 126) lcdb_verif_add("\\u%04x", c);
    else lcdb_verif_add("%c", c);
  }
  lcdb_verif_add("\"");
  lcdb_verif_end();
  ldb_free(v);
}
#endif
