/* wfile.c - drives the real buffered writable file (ldb_wfile_t of src/util/env_unix_impl.h) along a script and reports,
 * per call, the write(2) requests the library issued (this executable's own write() is what the library calls), the file
 * size afterwards, whether the bytes that reached the file are the next bytes of the appended stream, and whether an fsync
 * followed the last write. Validated by spec/WFileTrace.tla.
 *   wfile <script> <out.ndjson> <workfile>
 *   script lines:  R (new file)  |  A <n> (append n bytes)  |  F flush  |  S sync  |  C close  |  H <k> (write() returns at most k bytes; 0 = off)
 * The byte at stream position p is pat(p), so lost, duplicated or reordered bytes are visible.
 */
#define _GNU_SOURCE
#include <stdio.h>
#include <stdlib.h>
#include <string.h>
#include <stdint.h>
#include <unistd.h>
#include <fcntl.h>
#include <errno.h>
#include <sys/stat.h>
#include <sys/syscall.h>
#include "util/env.h"
#include "util/slice.h"

#define MAXREQ 4096
static int g_track = -1;            /* descriptor of the file under test (found by path at open time) */
static size_t g_req[MAXREQ]; static int g_nreq; static int g_short; static size_t g_shortmax;
static int g_fs_after_write;        /* an fsync/fdatasync was issued and no write followed it */
static const char *g_path;

static unsigned char pat(uint64_t p) { return (unsigned char)((p * 131 + (p >> 8) * 7 + 13) & 255); }

static int is_tracked(int fd) {
  char lnk[64], buf[4096]; ssize_t n;
  if (g_path == NULL) return 0;
  sprintf(lnk, "/proc/self/fd/%d", fd);
  n = readlink(lnk, buf, sizeof(buf) - 1);
  if (n <= 0) return 0;
  buf[n] = 0;
  return strcmp(buf, g_path) == 0;
}

ssize_t write(int fd, const void *p, size_t n) {
  if (fd > 2 && is_tracked(fd)) {
    size_t m = n;
    if (g_nreq < MAXREQ) g_req[g_nreq] = n;
    g_nreq++;
    g_fs_after_write = 0;
    if (g_shortmax > 0 && m > g_shortmax) m = g_shortmax;
    return syscall(SYS_write, fd, p, m);
  }
  return syscall(SYS_write, fd, p, n);
}
int fsync(int fd) { if (is_tracked(fd)) g_fs_after_write = 1; return 0; }
int fdatasync(int fd) { if (is_tracked(fd)) g_fs_after_write = 1; return 0; }

static uint64_t file_size(const char *path) { struct stat st; if (stat(path, &st) != 0) return 0; return (uint64_t)st.st_size; }

/* bytes [from, to) of the file must be pat(from) .. pat(to-1) */
static int content_ok(const char *path, uint64_t from, uint64_t to) {
  int fd; unsigned char *b; uint64_t i; int ok = 1; ssize_t got;
  if (to <= from) return to == from;
  fd = open(path, O_RDONLY); if (fd < 0) return 0;
  b = malloc(to - from);
  got = pread(fd, b, to - from, (off_t)from);
  if (got != (ssize_t)(to - from)) ok = 0;
  for (i = 0; ok && i < to - from; i++) if (b[i] != pat(from + i)) ok = 0;
  free(b); close(fd);
  return ok;
}

int main(int argc, char **argv) {
  FILE *s, *o; char line[256]; ldb_wfile_t *wf = NULL; uint64_t stream = 0, size = 0; char real[4096];
  if (argc < 4) return 2;
  s = fopen(argv[1], "r"); o = fopen(argv[2], "w"); if (!s || !o) return 2;
  { int fd = open(argv[3], O_CREAT | O_WRONLY | O_TRUNC, 0644); if (fd < 0) return 2; close(fd); if (!realpath(argv[3], real)) return 2; g_path = real; }
  while (fgets(line, sizeof(line), s)) {
    char op = line[0]; long n = 0; int rc = 0, i; const char *name = NULL; uint64_t nsize;
    if (op == 'H') { g_shortmax = (size_t)atol(line + 1); g_short = g_shortmax > 0; continue; }
    if (op == 'R') {
      if (wf != NULL) { ldb_wfile_destroy(wf); wf = NULL; }
      if (ldb_truncfile_create(argv[3], &wf) != 0) { fprintf(stderr, "create failed\n"); return 3; }
      stream = 0; size = 0; g_fs_after_write = 0;
      fprintf(o, "{\"e\":\"Reset\"}\n");
      continue;
    }
    if (wf == NULL) { fprintf(stderr, "no file\n"); return 2; }
    g_nreq = 0;
    if (op == 'A') {
      unsigned char *b; ldb_slice_t sl; long p;
      n = atol(line + 1); b = malloc((size_t)n + 1);
      for (p = 0; p < n; p++) b[p] = pat(stream + (uint64_t)p);
      ldb_slice_set(&sl, b, (size_t)n);
      rc = ldb_wfile_append(wf, &sl); free(b); stream += (uint64_t)n; name = "Append";
    } else if (op == 'F') { rc = ldb_wfile_flush(wf); name = "Flush"; }
    else if (op == 'S') { rc = ldb_wfile_sync(wf); name = "Sync"; }
    else if (op == 'C') { rc = ldb_wfile_close(wf); name = "Close"; }
    else continue;
    nsize = file_size(argv[3]);
    fprintf(o, "{\"e\":\"%s\",\"n\":%ld,\"rc\":%d,\"short\":%d,\"wr\":[", name, n, rc, g_short);
    for (i = 0; !g_short && i < g_nreq && i < MAXREQ; i++) fprintf(o, "%s%lu", i ? "," : "", (unsigned long)g_req[i]);   /* with short writes the retries are not requests of the library's own choosing */
    fprintf(o, "],\"size\":%lu,\"ok\":%d,\"fs\":%d}\n", (unsigned long)nsize, (g_nreq <= MAXREQ && nsize >= size && content_ok(argv[3], size, nsize)) ? 1 : 0, g_fs_after_write);
    size = nsize;
    if (op == 'C') { ldb_wfile_destroy(wf); wf = NULL; }
  }
  if (wf != NULL) ldb_wfile_destroy(wf);
  fclose(o); fclose(s);
  return 0;
}
