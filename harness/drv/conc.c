/* conc.c - multi-threaded workload on one shared handle (C04 visibility, C08, C09, C10).
 *
 * usage: conc <seed> <threads> <opsPerThread> <trace> <dbdir> [mode]
 *   mode: mix (default) | stall (tiny buffer pressure: writers stall on imm / level-0) | closerace
 * Every API call is bracketed by Call / Ret events in the same totally ordered stream as the hook events.
 * Thread roles: even threads mostly write, odd threads mostly read; thread 1 also compacts / flushes / backs up.
 * Each writer uses value ids of its own (thread * 100000 + counter), so reads identify the write they saw.
 */
#include "drvlib.h"
#include <pthread.h>
#include <signal.h>
#include <time.h>

static ldb_t *db;
static d_opts_t O;
static char dbdir[1024];
static int nthreads, nops, mode;
static uint32_t g_bits;
static volatile long g_progress = 0;
static volatile int g_done = 0;

typedef struct { int idx; uint64_t rs; int nextid; } thr_t;
static uint32_t trnd(thr_t *t) { t->rs ^= t->rs << 13; t->rs ^= t->rs >> 7; t->rs ^= t->rs << 17; return (uint32_t)(t->rs >> 11); }
static uint32_t trn(thr_t *t, uint32_t n) { return n ? trnd(t) % n : 0; }

static size_t plen(thr_t *t) {
  uint32_t r = trn(t, 100);
  if (mode == 1 || mode == 3) return r < 30 ? 20000 + trn(t, 30000) : 50 + trn(t, 500);
  if (r < 6) return 15000 + trn(t, 30000);
  return 5 + trn(t, 400);
}

static void op_put(thr_t *t) {
  int k = trn(t, NK), id = t->idx * 100000 + (++t->nextid), rc; size_t len = plen(t);
  char *v = d_mkval(id, len); ldb_slice_t key = d_key(k), val = ldb_slice(v, len < 5 ? 5 : len);
  ldb_writeopt_t wo = *ldb_writeopt_default; wo.sync = trn(t, 10) == 0;
  EV("Call", "\"op\":\"write\",\"sync\":%d,\"ops\":[[%d,%d]]", wo.sync, k, id);
  rc = ldb_put(db, &key, &val, &wo);
  EV("Ret", "\"op\":\"write\",\"rc\":%d", rc);
  free(v);
}
static void op_del(thr_t *t) {
  int k = trn(t, NK), rc; ldb_slice_t key = d_key(k);
  EV("Call", "\"op\":\"write\",\"sync\":0,\"ops\":[[%d,0]]", k);
  rc = ldb_del(db, &key, NULL);
  EV("Ret", "\"op\":\"write\",\"rc\":%d", rc);
}
/* a batch writes the SAME fresh id to several keys: a reader that sees a mixture has seen a torn batch */
static void op_batch(thr_t *t) {
  ldb_batch_t *b = ldb_batch_create(); int n = 2 + trn(t, 4), j, rc, id = t->idx * 100000 + (++t->nextid); char ops[512]; int p = 0;
  int base = trn(t, NK);
  for (j = 0; j < n; j++) {
    int kk = (base + j * 3) % NK; ldb_slice_t key = d_key(kk); size_t len = 5 + trn(t, 200); char *v = d_mkval(id, len); ldb_slice_t val = ldb_slice(v, len);
    ldb_batch_put(b, &key, &val); free(v); p += sprintf(ops + p, "%s[%d,%d]", j ? "," : "", kk, id);
  }
  EV("Call", "\"op\":\"write\",\"sync\":0,\"ops\":[%s]", ops);
  rc = ldb_write(db, b, NULL);
  EV("Ret", "\"op\":\"write\",\"rc\":%d", rc);
  ldb_batch_destroy(b);
}
static void op_get(thr_t *t) {
  int k = trn(t, NK), rc; ldb_slice_t key = d_key(k), out;
  EV("Call", "\"op\":\"get\",\"k\":%d", k);
  rc = ldb_get(db, &key, &out, NULL);
  if (rc == 0) { EV("Ret", "\"op\":\"get\",\"rc\":0,\"r\":%d", d_valid(out.data, out.size)); ldb_free(out.data); }
  else EV("Ret", "\"op\":\"get\",\"rc\":%d,\"r\":0", rc);
}
/* snapshot, read every key through it (must be one consistent point), release */
static void op_snapread(thr_t *t) {
  const ldb_snapshot_t *s; ldb_readopt_t ro = *ldb_readopt_default; int k; char items[1024]; int p = 0, bad = 0;
  EV("Call", "\"op\":\"snap\"");
  s = ldb_snapshot(db);
  EV("Ret", "\"op\":\"snap\",\"rc\":0");
  ro.snapshot = s;
  if (trn(t, 2)) sched_yield();
  EV("Call", "\"op\":\"snapget\"");
  for (k = 0; k < NK; k++) {
    ldb_slice_t key = d_key(k), out; int rc = ldb_get(db, &key, &out, &ro), id = 0;
    if (rc == 0) { id = d_valid(out.data, out.size); ldb_free(out.data); } else if (rc != LDB_NOTFOUND) bad = rc;
    p += sprintf(items + p, "%s%d", k ? "," : "", id);
  }
  EV("Ret", "\"op\":\"snapget\",\"rc\":%d,\"vals\":[%s]", bad, items);
  EV("Call", "\"op\":\"rel\"");
  ldb_release(db, s);
  EV("Ret", "\"op\":\"rel\",\"rc\":0");
}
static void op_scan(thr_t *t) {
  ldb_readopt_t ro = *ldb_iteropt_default; ldb_iter_t *it; int dir = trn(t, 2), n = 0; char items[2048]; int p = 0;
  items[0] = 0;   /* an empty scan must print an empty list, not what an earlier call left on the stack */
  ro.verify_checksums = trn(t, 2);
  EV("Call", "\"op\":\"scan\",\"dir\":%d", dir);
  it = ldb_iterator(db, &ro);
  if (mode == 1 && trn(t, 3) == 0) { /* a long-lived iterator reads megabytes: the read-sampling path (about one sample per MiB) runs against flushes and compactions */
    int pass; for (pass = 0; pass < 12; pass++) for (ldb_iter_first(it); ldb_iter_valid(it); ldb_iter_next(it)) { ldb_slice_t vv = ldb_iter_value(it); (void)vv; }
  }
  for (dir ? ldb_iter_last(it) : ldb_iter_first(it); ldb_iter_valid(it) && n < 40; dir ? ldb_iter_prev(it) : ldb_iter_next(it)) {
    ldb_slice_t kk = ldb_iter_key(it), vv = ldb_iter_value(it);
    p += sprintf(items + p, "%s[%d,%d]", n++ ? "," : "", d_rankof(kk), d_valid(vv.data, vv.size));
    if (trn(t, 8) == 0) sched_yield();
  }
  { int st = ldb_iter_status(it); ldb_iter_destroy(it); EV("Ret", "\"op\":\"scan\",\"rc\":%d,\"dir\":%d,\"items\":[%s]", st, dir, items); }
}
static void op_maint(thr_t *t) {
  uint32_t r = trn(t, 100);
  if (mode == 3 && r < 70) r = 95;      /* bak mode: most maintenance calls are backups, taken while the others write, flush and compact */
  if (r < 40) { int rc; EV("Call", "\"op\":\"flush\""); rc = ldb_test_compact_memtable(db); EV("Ret", "\"op\":\"flush\",\"rc\":%d", rc); }
  else if (r < 80) { int level = trn(t, 4); EV("Call", "\"op\":\"compact\",\"level\":%d", level); ldb_test_compact_range(db, level, NULL, NULL); EV("Ret", "\"op\":\"compact\",\"rc\":0"); }
  else if (r < 90) { char *v = NULL; EV("Call", "\"op\":\"prop\""); ldb_property(db, "leveldb.stats", &v); if (v) ldb_free(v); { uint64_t sz; ldb_range_t rg; rg.start = d_key(0); rg.limit = d_key(NK - 1); ldb_approximate_sizes(db, &rg, 1, &sz); } EV("Ret", "\"op\":\"prop\",\"rc\":0"); }
  else {
    /* backup while other threads write, flush and compact; the backup is then opened and scanned by ANOTHER process (this process's
       hook stream describes one database handle only) */
    char bak[1100], cmd[2600], line[4096]; int rc, orc = -1, st = -1; FILE *pf; static char self[1024]; ssize_t sl;
    snprintf(bak, sizeof(bak), "%s.bak%u_%d", dbdir, trnd(t) % 1000, t->idx); d_rmrf(bak);
    EV("Call", "\"op\":\"backup\""); rc = ldb_backup(db, bak);
    line[0] = 0;
    if (rc == 0) {
      sl = readlink("/proc/self/exe", self, sizeof(self) - 1); if (sl > 0) self[sl] = 0;
      snprintf(cmd, sizeof(cmd), "'%s' scanbak '%s' %u", self, bak, g_bits);
      pf = popen(cmd, "r");
      if (pf) { if (fgets(line, sizeof(line), pf)) { char *nl = strchr(line, '\n'); if (nl) *nl = 0; if (sscanf(line, "%d %d", &orc, &st) != 2) { orc = -2; st = -2; } } pclose(pf); }
    }
    { char *items = strchr(line, '['); EV("Ret", "\"op\":\"backup\",\"rc\":%d,\"open_rc\":%d,\"status\":%d,\"items\":%s", rc, orc, st, items ? items : "[]"); }
    d_rmrf(bak);
  }
}

static void *worker(void *arg) {
  thr_t *t = arg; int i;
  for (i = 0; i < nops; i++) {
    uint32_t r = trn(t, 100);
    if (t->idx % 2 == 0) { /* writer-leaning */
      if (r < 45) op_put(t); else if (r < 55) op_del(t); else if (r < 75) op_batch(t); else if (r < 90) op_get(t); else if (r < 95) op_snapread(t); else op_scan(t);
    } else {               /* reader-leaning */
      if (r < 40) op_get(t); else if (r < 60) op_snapread(t); else if (r < 75) op_scan(t); else if (r < 90) op_put(t);
      else if (t->idx == 1) op_maint(t); else op_batch(t);
    }
    __sync_fetch_and_add(&g_progress, 1);
  }
  return NULL;
}

/* watchdog: if no API call completes for a long time the run is stuck; leave a usable trace and exit 3 */
static void *watchdog(void *arg) {
  long last = -1; int still = 0; (void)arg;
  while (!g_done) {
    struct timespec ts = {0, 200 * 1000 * 1000}; nanosleep(&ts, NULL);
    if (g_progress == last) still++; else { still = 0; last = g_progress; }
    if (still >= 100) { EV("Hang", "\"progress\":%ld", g_progress); lcdb_verif_flush(); _exit(3); }
  }
  return NULL;
}

static int scanbak_main(int argc, char **argv) {
  /* conc scanbak <dir> <optbits>: open a backup, print "open_rc status [[rank,id],...]" */
  ldb_t *b = NULL; int rc, n = 0; ldb_iter_t *it;
  if (argc < 4) return 2;
  d_seed(1); d_init_keys(); d_make_opts(&O, (uint32_t)strtoul(argv[3], NULL, 0));
  rc = ldb_open(argv[2], &O.o, &b);
  if (rc != 0) { printf("%d -1 []\n", rc); return 0; }
  it = ldb_iterator(b, NULL);
  printf("0 ");
  { char items[4096]; int p = 0; items[0] = 0;
    for (ldb_iter_first(it); ldb_iter_valid(it) && n < 100; ldb_iter_next(it)) { ldb_slice_t kk = ldb_iter_key(it), vv = ldb_iter_value(it); p += sprintf(items + p, "%s[%d,%d]", n++ ? "," : "", d_rankof(kk), d_valid(vv.data, vv.size)); }
    printf("%d [%s]\n", ldb_iter_status(it), items); }
  ldb_iter_destroy(it); ldb_close(b);
  return 0;
}

int main(int argc, char **argv) {
  int seed, i, rc; pthread_t th[16], wd; thr_t ts[16]; uint32_t bits;
  if (argc >= 2 && !strcmp(argv[1], "scanbak")) return scanbak_main(argc, argv);
  if (argc < 6) { fprintf(stderr, "usage: conc seed threads ops trace dbdir [mode]\n"); return 2; }
  seed = atoi(argv[1]); nthreads = atoi(argv[2]); nops = atoi(argv[3]);
  snprintf(dbdir, sizeof(dbdir), "%s", argv[5]);
  mode = argc > 6 ? (!strcmp(argv[6], "stall") ? 1 : !strcmp(argv[6], "closerace") ? 2 : !strcmp(argv[6], "bak") ? 3 : 0) : 0;
  if (nthreads > 16) nthreads = 16;
  d_seed((uint64_t)seed * 2654435761ULL + 17); d_init_keys();
  bits = d_rnd() & ~(3u << 15);            /* bytewise comparator */
  bits &= ~(3u << 1);                      /* 64 KiB write buffer: memtable switches happen often */
  g_bits = bits;
  d_make_opts(&O, bits);
  d_rmrf(dbdir);
  lcdb_verif_open(argv[4]);
  lcdb_verif_sched((unsigned long)seed);
  EV("Reset", "\"seed\":%d,\"threads\":%d,\"ops\":%d,\"mode\":%d", seed, nthreads, nops, mode);
  d_ev_opts(&O, NULL);
  rc = ldb_open(dbdir, &O.o, &db);
  EV("open", "\"rc\":%d", rc);
  if (rc != 0) { lcdb_verif_close(); return 4; }
  pthread_create(&wd, NULL, watchdog, NULL);
  for (i = 0; i < nthreads; i++) { ts[i].idx = i + 1; ts[i].rs = 88172645463325252ULL ^ ((uint64_t)(seed * 131 + i + 1) * 0x9E3779B97F4A7C15ULL); ts[i].nextid = 0; trnd(&ts[i]); trnd(&ts[i]); pthread_create(&th[i], NULL, worker, &ts[i]); }
  for (i = 0; i < nthreads; i++) pthread_join(th[i], NULL);
  /* final state: must equal the fold of all acknowledged writes in sequence order */
  { ldb_iter_t *it = ldb_iterator(db, NULL); int n = 0;
    lcdb_verif_begin("final"); lcdb_verif_add("\"items\":[");
    for (ldb_iter_first(it); ldb_iter_valid(it); ldb_iter_next(it)) { ldb_slice_t kk = ldb_iter_key(it), vv = ldb_iter_value(it); lcdb_verif_add("%s[%d,%d]", n++ ? "," : "", d_rankof(kk), d_valid(vv.data, vv.size)); }
    lcdb_verif_add("],\"status\":%d", ldb_iter_status(it)); lcdb_verif_end(); ldb_iter_destroy(it); }
  EV("Call", "\"op\":\"close\"");
  ldb_close(db);
  EV("Ret", "\"op\":\"close\",\"rc\":0");
  g_done = 1;
  pthread_join(wd, NULL);
  lcdb_verif_close();
  d_free_opts(&O);
  d_rmrf(dbdir);
  return 0;
}
