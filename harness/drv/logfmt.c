/* logfmt.c - drives the real log writer / reader through their in-memory seams (lw->dst, lr->src).
 *   logfmt write <vectors> <out.bin>      vectors: lines "off len1 len2 ..."; out: "V idx off nbytes\n<bytes>\n"
 *   logfmt read <in.bin> <tests> <out>    tests: "idx cut <c>" | "idx flip <pos> <xor>" | "idx zero <pos> <len>"; out: one JSON line per test
 * Record j (1-based) of length n carries byte (j*37 + p*11 + n) & 255 at position p, so a returned record identifies
 * itself; anything else is reported as fabricated (-1).
 */
#define _GNU_SOURCE
#include <stdio.h>
#include <stdlib.h>
#include <string.h>
#include <stdint.h>
#include "log_format.h"
#include "log_writer.h"
#include "log_reader.h"
#include "util/buffer.h"
#include "util/slice.h"
#include "util/crc32c.h"

static unsigned char pat(int j, size_t p, size_t n) { return (unsigned char)((j * 37 + p * 11 + n) & 255); }

static void add_record(ldb_writer_t *lw, int j, size_t n) {
  unsigned char *b = malloc(n + 1); size_t p; ldb_slice_t s;
  for (p = 0; p < n; p++) b[p] = pat(j, p, n);
  ldb_slice_set(&s, b, n);
  if (ldb_writer_add_record(lw, &s) != 0) { fprintf(stderr, "add_record failed\n"); exit(3); }
  free(b);
}

static int cmd_write(const char *vecs, const char *outp) {
  FILE *f = fopen(vecs, "r"), *o = fopen(outp, "wb"); char line[4096]; int idx = 0;
  if (!f || !o) return 2;
  while (fgets(line, sizeof(line), f)) {
    long off; char *p = line, *e; ldb_buffer_t buf; ldb_writer_t lw; int j = 0;
    off = strtol(p, &e, 10); if (e == p) continue; p = e;
    ldb_buffer_init(&buf);
    if (off > 0) { /* earlier content of a reused log: one filler record (index 0) ending exactly at off */
      ldb_writer_init(&lw, NULL, 0); lw.dst = &buf;
      if (off < LDB_HEADER_SIZE) { fprintf(stderr, "unreachable offset %ld\n", off); return 2; }
      add_record(&lw, 0, (size_t)(off - LDB_HEADER_SIZE));
      if ((long)buf.size != off) { fprintf(stderr, "filler size %lu != %ld\n", (unsigned long)buf.size, off); return 2; }
    }
    ldb_writer_init(&lw, NULL, (uint64_t)off); lw.dst = &buf;
    for (;;) { long n = strtol(p, &e, 10); if (e == p) break; p = e; add_record(&lw, ++j, (size_t)n); }
    fprintf(o, "V %d %ld %lu\n", idx, off, (unsigned long)buf.size);
    fwrite(buf.data, 1, buf.size, o); fputc('\n', o);
    ldb_buffer_clear(&buf);
    idx++;
  }
  fclose(f); fclose(o);
  return 0;
}

static size_t g_drops, g_dropbytes;
static void on_corruption(ldb_reporter_t *r, size_t bytes, int status) { (void)r; (void)status; g_drops++; g_dropbytes += bytes; }

/* identify a returned record by its content; -1 if it matches nothing that was written */
static int identify(const unsigned char *d, size_t n, int maxj) {
  int j; size_t p;
  if (n == 0) return -2; /* empty records carry no content: identified by position */
  for (j = 0; j <= maxj; j++) {
    for (p = 0; p < n; p++) if (d[p] != pat(j, p, n)) break;
    if (p == n) return j;
  }
  return -1;
}

typedef struct { long off; unsigned char *data; size_t n; } vec_t;

static int cmd_read(const char *inp, const char *tests, const char *outp) {
  FILE *f = fopen(inp, "rb"), *t = fopen(tests, "r"), *o = fopen(outp, "w"); static vec_t V[200000]; int nv = 0; char line[256];
  if (!f || !t || !o) return 2;
  while (fgets(line, sizeof(line), f)) {
    int idx; long off; unsigned long n;
    if (sscanf(line, "V %d %ld %lu", &idx, &off, &n) != 3) return 2;
    V[idx].off = off; V[idx].n = n; V[idx].data = malloc(n + 1);
    if (n && fread(V[idx].data, 1, n, f) != n) return 2;
    fgetc(f); nv = idx + 1;
  }
  while (fgets(line, sizeof(line), t)) {
    int idx; char op[16]; long a = 0, b = 0; unsigned char *copy; size_t n; ldb_reader_t lr; ldb_reporter_t rep; ldb_slice_t src, rec; ldb_buffer_t scratch; int first = 1;
    if (sscanf(line, "%d %15s %ld %ld", &idx, op, &a, &b) < 3 || idx >= nv) continue;
    n = V[idx].n; copy = malloc(n + 1); memcpy(copy, V[idx].data, n);
    if (!strcmp(op, "cut")) { if ((size_t)a < n) n = (size_t)a; }
    else if (!strcmp(op, "flip")) { if ((size_t)a < n) copy[a] ^= (unsigned char)b; }
    else if (!strcmp(op, "utype")) {
      /* the type byte of the physical record whose header starts at a becomes b, and the checksum is made valid again: an
         unknown record type with a correct CRC */
      if ((size_t)a + 7 <= n) { size_t L = copy[a + 4] | ((size_t)copy[a + 5] << 8); if ((size_t)a + 7 + L <= n) { uint32_t crc; copy[a + 6] = (unsigned char)b; crc = ldb_crc32c_mask(ldb_crc32c_value(copy + a + 6, 1 + L)); copy[a] = crc & 255; copy[a + 1] = (crc >> 8) & 255; copy[a + 2] = (crc >> 16) & 255; copy[a + 3] = (crc >> 24) & 255; } }
    }
    else if (!strcmp(op, "zero")) { if ((size_t)a < n) memset(copy + a, 0, (size_t)a + (size_t)b <= n ? (size_t)b : n - (size_t)a); }   /* a zero-filled region (e.g. a lost block) */
    g_drops = 0; g_dropbytes = 0;
    memset(&rep, 0, sizeof(rep)); rep.corruption = on_corruption;
    ldb_slice_set(&src, copy, n);
    ldb_reader_init(&lr, NULL, &rep, 1, 0); lr.src = &src;
    ldb_buffer_init(&scratch);
    fprintf(o, "{\"idx\":%d,\"op\":\"%s\",\"a\":%ld,\"b\":%ld,\"recs\":[", idx, op, a, b);
    while (ldb_reader_read_record(&lr, &rec, &scratch)) {
      int j = identify(rec.data, rec.size, 64);
      if (j == 0 && V[idx].off > 0) continue;   /* the filler */
      fprintf(o, "%s[%d,%lu]", first ? "" : ",", j, (unsigned long)rec.size); first = 0;
    }
    fprintf(o, "],\"drops\":%lu,\"dropbytes\":%lu}\n", (unsigned long)g_drops, (unsigned long)g_dropbytes);
    ldb_buffer_clear(&scratch); ldb_reader_clear(&lr); free(copy);
  }
  fclose(f); fclose(t); fclose(o);
  return 0;
}

int main(int argc, char **argv) {
  ldb_crc32c_init();
  if (argc == 4 && !strcmp(argv[1], "write")) return cmd_write(argv[2], argv[3]);
  if (argc == 5 && !strcmp(argv[1], "read")) return cmd_read(argv[2], argv[3], argv[4]);
  fprintf(stderr, "usage: logfmt write vectors out.bin | logfmt read in.bin tests out\n");
  return 2;
}
