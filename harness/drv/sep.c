/* sep.c - the real index-key shortening functions on given vectors (C16).
 *   sep <vectors> <out.ndjson>
 * vectors: "S <hexa> <hexb>" | "U <hexa>" | "IS <hexa> <seqa> <hexb> <seqb>" | "IU <hexa> <seqa>"   ("-" = empty string)
 * output: one JSON line per vector with the bytes the real function produced; SepTrace.tla decides.
 */
#define _GNU_SOURCE
#include <stdio.h>
#include <stdlib.h>
#include <string.h>
#include <stdint.h>
#include "util/slice.h"
#include "util/buffer.h"
#include "util/comparator.h"
#include "dbformat.h"

static size_t unhex(const char *h, unsigned char *out) { size_t n, i; if (!strcmp(h, "-")) return 0; n = strlen(h) / 2; for (i = 0; i < n; i++) { unsigned int b; sscanf(h + 2 * i, "%2x", &b); out[i] = (unsigned char)b; } return n; }
static void jbytes(FILE *o, const unsigned char *p, size_t n) { size_t i; fputc('[', o); for (i = 0; i < n; i++) fprintf(o, "%s%u", i ? "," : "", p[i]); fputc(']', o); }
static void put_ikey(ldb_buffer_t *b, const unsigned char *u, size_t n, uint64_t seq) { uint64_t packed = (seq << 8) | 1; int i; ldb_buffer_reset(b); ldb_buffer_append(b, u, n); for (i = 0; i < 8; i++) { unsigned char c = (unsigned char)(packed >> (8 * i)); ldb_buffer_append(b, &c, 1); } }
static void jikey(FILE *o, const unsigned char *p, size_t n) {
  uint64_t packed = 0; int i; long seq;
  if (n < 8) { fprintf(o, "{\"u\":[],\"s\":-1}"); return; }
  for (i = 7; i >= 0; i--) packed = (packed << 8) | p[n - 8 + i];
  seq = (packed >> 8) == (((uint64_t)1 << 56) - 1) ? 1000000000L : (long)(packed >> 8);
  fprintf(o, "{\"u\":"); jbytes(o, p, n - 8); fprintf(o, ",\"s\":%ld}", seq);
}

int main(int argc, char **argv) {
  FILE *in, *out; char *line = NULL; size_t cap = 0; ldb_comparator_t ikc; static char ha[4096], hb[4096]; static unsigned char a[2048], b[2048];
  if (argc != 3) return 2;
  in = fopen(argv[1], "r"); out = fopen(argv[2], "w"); if (!in || !out) return 2;
  ldb_ikc_init(&ikc, ldb_bytewise_comparator);
  while (getline(&line, &cap, in) >= 0) {
    long sa = 0, sb = 0; size_t na, nb; ldb_buffer_t buf; ldb_slice_t lim;
    ldb_buffer_init(&buf);
    if (sscanf(line, "S %4000s %4000s", ha, hb) == 2 && line[0] == 'S') {
      na = unhex(ha, a); nb = unhex(hb, b); ldb_buffer_append(&buf, a, na); ldb_slice_set(&lim, b, nb);
      ldb_shortest_separator(ldb_bytewise_comparator, &buf, &lim);
      fprintf(out, "{\"e\":\"sep\",\"a\":"); jbytes(out, a, na); fprintf(out, ",\"b\":"); jbytes(out, b, nb); fprintf(out, ",\"o\":"); jbytes(out, buf.data, buf.size); fprintf(out, "}\n");
    } else if (line[0] == 'U' && sscanf(line, "U %4000s", ha) == 1) {
      na = unhex(ha, a); ldb_buffer_append(&buf, a, na);
      ldb_short_successor(ldb_bytewise_comparator, &buf);
      fprintf(out, "{\"e\":\"succ\",\"a\":"); jbytes(out, a, na); fprintf(out, ",\"o\":"); jbytes(out, buf.data, buf.size); fprintf(out, "}\n");
    } else if (line[0] == 'I' && line[1] == 'S' && sscanf(line, "IS %4000s %ld %4000s %ld", ha, &sa, hb, &sb) == 4) {
      ldb_buffer_t lb; na = unhex(ha, a); nb = unhex(hb, b); ldb_buffer_init(&lb);
      put_ikey(&buf, a, na, (uint64_t)sa); put_ikey(&lb, b, nb, (uint64_t)sb); ldb_slice_set(&lim, lb.data, lb.size);
      ldb_shortest_separator(&ikc, &buf, &lim);
      fprintf(out, "{\"e\":\"isep\",\"a\":{\"u\":"); jbytes(out, a, na); fprintf(out, ",\"s\":%ld},\"b\":{\"u\":", sa); jbytes(out, b, nb); fprintf(out, ",\"s\":%ld},\"o\":", sb); jikey(out, buf.data, buf.size); fprintf(out, "}\n");
      ldb_buffer_clear(&lb);
    } else if (line[0] == 'I' && line[1] == 'U' && sscanf(line, "IU %4000s %ld", ha, &sa) == 2) {
      na = unhex(ha, a); put_ikey(&buf, a, na, (uint64_t)sa);
      ldb_short_successor(&ikc, &buf);
      fprintf(out, "{\"e\":\"isucc\",\"a\":{\"u\":"); jbytes(out, a, na); fprintf(out, ",\"s\":%ld},\"o\":", sa); jikey(out, buf.data, buf.size); fprintf(out, "}\n");
    }
    ldb_buffer_clear(&buf);
  }
  fclose(out); fclose(in);
  return 0;
}
