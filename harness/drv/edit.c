/* edit.c - version-edit encoding round trips on given vectors (C17).
 *   edit <vectors> <out>
 * vectors: blocks "E" ... "X" with field lines
 *   c <hexname> | l <u64> | p <u64> | n <u64> | s <u64> | P <level> <hexikey> | D <level> <u64> | A <level> <num> <size> <hexsmallest> <hexlargest>
 *   -> out "B <hex>" (what ldb_edit_export wrote) and "R <rc> <hex>" (import of those bytes, exported again)
 * and lines "I <hex>" (bytes produced by the independent encoder) -> out "J <rc> <hex>" (import, export again)
 */
#define _GNU_SOURCE
#include <stdio.h>
#include <stdlib.h>
#include <string.h>
#include <stdint.h>
#include "util/slice.h"
#include "util/buffer.h"
#include "util/status.h"
#include "dbformat.h"
#include "version_edit.h"

static size_t unhex(const char *h, unsigned char *out) { size_t n, i; if (!strcmp(h, "-")) return 0; n = strlen(h) / 2; for (i = 0; i < n; i++) { unsigned int b; sscanf(h + 2 * i, "%2x", &b); out[i] = (unsigned char)b; } return n; }
static void phex(FILE *o, const unsigned char *p, size_t n) { size_t i; if (!n) fputc('-', o); for (i = 0; i < n; i++) fprintf(o, "%02x", p[i]); }
static void reexport(FILE *out, const char *tag, const unsigned char *p, size_t n) {
  ldb_edit_t e2; ldb_slice_t src; ldb_buffer_t b2; int ok;
  ldb_edit_init(&e2); ldb_buffer_init(&b2); ldb_slice_set(&src, p, n);
  ok = ldb_edit_import(&e2, &src);
  if (ok) ldb_edit_export(&b2, &e2);
  fprintf(out, "%s %d ", tag, ok); phex(out, b2.data, b2.size); fputc('\n', out);
  ldb_buffer_clear(&b2); ldb_edit_clear(&e2);
}

int main(int argc, char **argv) {
  FILE *in, *out; char *line = NULL; size_t cap = 0; ldb_edit_t e; int open = 0; static char h1[70000], h2[70000]; static unsigned char b1[35000], b2[35000];
  if (argc != 3) return 2;
  in = fopen(argv[1], "r"); out = fopen(argv[2], "w"); if (!in || !out) return 2;
  while (getline(&line, &cap, in) >= 0) {
    unsigned long long a = 0, b = 0; int lv = 0;
    if (line[0] == 'E') { ldb_edit_init(&e); open = 1; }
    else if (line[0] == 'X' && open) {
      ldb_buffer_t buf; ldb_buffer_init(&buf); ldb_edit_export(&buf, &e);
      fprintf(out, "B "); phex(out, buf.data, buf.size); fputc('\n', out);
      reexport(out, "R", buf.data, buf.size);
      ldb_buffer_clear(&buf); ldb_edit_clear(&e); open = 0;
    }
    else if (line[0] == 'c' && sscanf(line, "c %60000s", h1) == 1) { size_t n = unhex(h1, b1); b1[n] = 0; ldb_edit_set_comparator_name(&e, (const char *)b1); }
    else if (line[0] == 'l' && sscanf(line, "l %llu", &a) == 1) ldb_edit_set_log_number(&e, a);
    else if (line[0] == 'p' && sscanf(line, "p %llu", &a) == 1) ldb_edit_set_prev_log_number(&e, a);
    else if (line[0] == 'n' && sscanf(line, "n %llu", &a) == 1) ldb_edit_set_next_file(&e, a);
    else if (line[0] == 's' && sscanf(line, "s %llu", &a) == 1) ldb_edit_set_last_sequence(&e, a);
    else if (line[0] == 'P' && sscanf(line, "P %d %60000s", &lv, h1) == 2) { ldb_ikey_t k; size_t n = unhex(h1, b1); ldb_ikey_init(&k); ldb_buffer_append(&k, b1, n); ldb_edit_set_compact_pointer(&e, lv, &k); ldb_ikey_clear(&k); }
    else if (line[0] == 'D' && sscanf(line, "D %d %llu", &lv, &a) == 2) ldb_edit_remove_file(&e, lv, a);
    else if (line[0] == 'A' && sscanf(line, "A %d %llu %llu %60000s %60000s", &lv, &a, &b, h1, h2) == 5) {
      ldb_ikey_t s, l; size_t n1 = unhex(h1, b1), n2 = unhex(h2, b2); ldb_ikey_init(&s); ldb_ikey_init(&l); ldb_buffer_append(&s, b1, n1); ldb_buffer_append(&l, b2, n2);
      ldb_edit_add_file(&e, lv, a, b, &s, &l); ldb_ikey_clear(&s); ldb_ikey_clear(&l);
    }
    else if (line[0] == 'I' && sscanf(line, "I %60000s", h1) == 1) { size_t n = unhex(h1, b1); reexport(out, "J", b1, n); }
  }
  fclose(out); fclose(in);
  return 0;
}
