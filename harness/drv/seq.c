/* seq.c - single-threaded randomized / scripted histories over the public API.
 *
 * usage: seq <seed> <steps> <trace> <dbdir> [profile] [optbits]
 * Emits driver events (API call results) into the same ordered stream as the hook events.
 * profile: mixed | deep | bigval | iter | snap
 */
#include "drvlib.h"

#define MAXS 6
#define MAXI 3
static const ldb_snapshot_t *snaps[MAXS + 1];
static ldb_iter_t *its[MAXI + 1];
static int itvalid[MAXI + 1];
static int nextid = 1;
static ldb_t *db;
static d_opts_t O;
static char dbdir[1024];

/* after a close: preserve the descriptor file(s) so that the projection can decode them independently */
static int g_mserial = 0;
static void keep_manifests(void) {
  DIR *dd = opendir(dbdir); struct dirent *de; char src[1300], dst[1300], cur[64]; FILE *f;
  cur[0] = 0;
  snprintf(src, sizeof(src), "%s/CURRENT", dbdir); f = fopen(src, "r");
  if (f) { if (fgets(cur, sizeof(cur), f)) { size_t n = strlen(cur); if (n && cur[n - 1] == '\n') cur[n - 1] = 0; } fclose(f); }
  while (dd && (de = readdir(dd)) != NULL) if (!strncmp(de->d_name, "MANIFEST-", 9)) {
    FILE *a, *b; char buf[65536]; size_t n;
    snprintf(src, sizeof(src), "%s/%s", dbdir, de->d_name);
    snprintf(dst, sizeof(dst), "%s.keep/%s.%d", dbdir, de->d_name, ++g_mserial);
    a = fopen(src, "rb"); b = fopen(dst, "wb");
    if (a && b) { while ((n = fread(buf, 1, sizeof(buf), a)) > 0) fwrite(buf, 1, n, b); }
    if (a) fclose(a); if (b) fclose(b);
    EV("ManifestKept", "\"name\":\"%s\",\"file\":\"%s.%d\",\"current\":%d", de->d_name, de->d_name, g_mserial, !strcmp(cur, de->d_name));
  }
  if (dd) closedir(dd);
}

static int any_iter(void) { int j; for (j = 1; j <= MAXI; j++) if (its[j]) return 1; return 0; }

static int force_small = 0;
static int g_profile = 0;
static size_t pick_len(int profile) {
  uint32_t r = d_rn(100);
  if (force_small) return 5 + d_rn(100);
  if (profile == 5 || profile == 7 || profile == 8) return 5 + d_rn(60);                       /* auto: tiny values, flush driven */
  if (profile == 6) return 150000 + d_rn(550000);              /* autobig: every output file closes after 2-6 entries */
  if (profile == 2) { /* bigval */
    if (r < 30) return 200000 + d_rn(400000);
    if (r < 60) return 20000 + d_rn(40000);
    return 5 + d_rn(300);
  }
  if (profile == 1) { /* deep: many flushes of small data */
    if (r < 4) return 30000 + d_rn(50000);
    return 5 + d_rn(200);
  }
  if (r < 3) return 100000 + d_rn(500000);
  if (r < 12) return 10000 + d_rn(40000);
  if (r < 20) return 5;
  return 5 + d_rn(3000);
}

static int force_key = -1;
static void do_put(int profile) {
  int k = force_key >= 0 ? force_key : profile == 6 ? (int)d_rn(4) * 5 : d_rn(NK), id = nextid++, rc; size_t len = pick_len(profile);
  char *v = d_mkval(id, len); ldb_slice_t key = d_key(k), val = ldb_slice(v, len < 5 ? 5 : len);
  ldb_writeopt_t wo = *ldb_writeopt_default; wo.sync = d_rn(8) == 0;
  EV("call_write", "\"ops\":[[%d,%d]]", k, id);
  rc = ldb_put(db, &key, &val, &wo);
  EV("put", "\"k\":%d,\"v\":%d,\"len\":%lu,\"sync\":%d,\"rc\":%d", k, id, (unsigned long)val.size, wo.sync, rc);
  free(v);
}
static void do_del(void) {
  int k = d_rn(NK), rc; ldb_slice_t key = d_key(k);
  EV("call_write", "\"ops\":[[%d,0]]", k);
  rc = ldb_del(db, &key, NULL);
  EV("del", "\"k\":%d,\"rc\":%d", k, rc);
}
static void do_batch(int profile) {
  ldb_batch_t *b = ldb_batch_create(); int n = 1 + d_rn(6), j, rc; char ops[1024]; int p = 0;
  for (j = 0; j < n; j++) {
    int kk = d_rn(NK); ldb_slice_t key = d_key(kk);
    if (d_rn(3) == 0) { ldb_batch_del(b, &key); p += sprintf(ops + p, "%s[%d,0]", j ? "," : "", kk); }
    else { int id = nextid++; size_t len = pick_len(profile) % 70000; char *v = d_mkval(id, len); ldb_slice_t val = ldb_slice(v, len < 5 ? 5 : len);
           ldb_batch_put(b, &key, &val); free(v); p += sprintf(ops + p, "%s[%d,%d]", j ? "," : "", kk, id); }
  }
  EV("call_write", "\"ops\":[%s]", ops);
  rc = ldb_write(db, b, NULL);
  EV("batch", "\"ops\":[%s],\"rc\":%d", ops, rc);
  ldb_batch_destroy(b);
}
static void do_get(void) {
  int k = d_rn(NK), s = d_rn(MAXS + 1), rc; ldb_readopt_t ro = *ldb_readopt_default; ldb_slice_t key = d_key(k), out;
  if (s && !snaps[s]) s = 0;
  ro.snapshot = s ? snaps[s] : NULL; ro.verify_checksums = d_rn(2); ro.fill_cache = d_rn(4) != 0;
  if (d_rn(5) == 0) {
    rc = ldb_has(db, &key, &ro);
    EV("has", "\"k\":%d,\"snap\":%d,\"r\":%d,\"rc\":%d", k, s, rc == 0 ? 1 : rc == LDB_NOTFOUND ? 0 : -9, rc);
    return;
  }
  rc = ldb_get(db, &key, &out, &ro);
  if (rc == 0) { EV("get", "\"k\":%d,\"snap\":%d,\"r\":%d,\"rc\":0", k, s, d_valid(out.data, out.size)); ldb_free(out.data); }
  else if (rc == LDB_NOTFOUND) EV("get", "\"k\":%d,\"snap\":%d,\"r\":0,\"rc\":%d", k, s, rc);
  else EV("get", "\"k\":%d,\"snap\":%d,\"r\":-9,\"rc\":%d", k, s, rc);
}
static void do_snap(void) { int j; for (j = 1; j <= MAXS; j++) if (!snaps[j]) break; if (j <= MAXS) { snaps[j] = ldb_snapshot(db); EV("snap", "\"id\":%d", j); } }
static void do_rel(void) { int j = 1 + d_rn(MAXS); if (snaps[j]) { ldb_release(db, snaps[j]); snaps[j] = NULL; EV("rel", "\"id\":%d", j); } }
static void do_iter_new(void) {
  int j, s; ldb_readopt_t ro = *ldb_iteropt_default;
  for (j = 1; j <= MAXI; j++) if (!its[j]) break;
  if (j > MAXI) return;
  s = d_rn(MAXS + 1); if (s && !snaps[s]) s = 0;
  ro.snapshot = s ? snaps[s] : NULL; ro.verify_checksums = d_rn(2); ro.fill_cache = d_rn(2);
  its[j] = ldb_iterator(db, &ro); itvalid[j] = 0;
  EV("iter_new", "\"id\":%d,\"snap\":%d", j, s);
}
static void do_iter_free(void) { int j = 1 + d_rn(MAXI); if (its[j]) { ldb_iter_destroy(its[j]); its[j] = NULL; EV("iter_free", "\"id\":%d", j); } }
static void do_it(void) {
  static const char *nm[9] = {"first", "last", "seek", "seek_ge", "seek_gt", "seek_le", "seek_lt", "next", "prev"};
  int j = 1 + d_rn(MAXI), o, t; ldb_slice_t tk; ldb_iter_t *it;
  if (!its[j]) return;
  it = its[j]; o = d_rn(14); t = d_rn(NK); tk = d_key(t);
  if (o >= 9) o = 7 + (o & 1);            /* stepping is more frequent than positioning */
  if (o >= 7 && !itvalid[j]) o = d_rn(7);
  switch (o) {
    case 0: ldb_iter_first(it); break; case 1: ldb_iter_last(it); break; case 2: ldb_iter_seek(it, &tk); break;
    case 3: ldb_iter_seek_ge(it, &tk); break; case 4: ldb_iter_seek_gt(it, &tk); break; case 5: ldb_iter_seek_le(it, &tk); break;
    case 6: ldb_iter_seek_lt(it, &tk); break; case 7: ldb_iter_next(it); break; case 8: ldb_iter_prev(it); break;
  }
  itvalid[j] = ldb_iter_valid(it);
  if (itvalid[j]) { ldb_slice_t kk = ldb_iter_key(it), vv = ldb_iter_value(it);
    EV("it", "\"id\":%d,\"op\":\"%s\",\"t\":%d,\"valid\":1,\"k\":%d,\"v\":%d,\"status\":%d", j, nm[o], t, d_rankof(kk), d_valid(vv.data, vv.size), ldb_iter_status(it)); }
  else EV("it", "\"id\":%d,\"op\":\"%s\",\"t\":%d,\"valid\":0,\"k\":-1,\"v\":0,\"status\":%d", j, nm[o], t, ldb_iter_status(it));
}
static void do_scan(void) {
  int s = d_rn(MAXS + 1), dir = d_rn(2), n = 0; ldb_readopt_t ro = *ldb_iteropt_default; ldb_iter_t *it;
  if (s && !snaps[s]) s = 0;
  ro.snapshot = s ? snaps[s] : NULL; ro.verify_checksums = 1; ro.fill_cache = d_rn(2);
  it = ldb_iterator(db, &ro);
  lcdb_verif_begin("scan");
  lcdb_verif_add("\"snap\":%d,\"dir\":\"%s\",\"items\":[", s, dir ? "bwd" : "fwd");
  for (dir ? ldb_iter_last(it) : ldb_iter_first(it); ldb_iter_valid(it); dir ? ldb_iter_prev(it) : ldb_iter_next(it)) {
    ldb_slice_t kk = ldb_iter_key(it), vv = ldb_iter_value(it);
    lcdb_verif_add("%s[%d,%d]", n++ ? "," : "", d_rankof(kk), d_valid(vv.data, vv.size));
    if (n > 64) break;
  }
  lcdb_verif_add("],\"status\":%d", ldb_iter_status(it));
  lcdb_verif_end();
  ldb_iter_destroy(it);
}
static void quiesce(void) {
  /* a manual compaction request on an empty level returns only when no background work is scheduled */
  ldb_test_compact_range(db, 5, NULL, NULL);
  d_ev_sstables(db, "sstables");
  d_ev_ls("ls", dbdir);
}
static void do_flush(void) { int rc = ldb_test_compact_memtable(db); EV("flush", "\"rc\":%d", rc); }
static void do_compact(void) {
  int level = d_rn(6), b = d_rn(NK + 4), e = d_rn(NK + 4); ldb_slice_t bk, ek;
  if (g_profile == 8) { level = d_rn(3) == 0 ? 1 : 0; b = d_rn(NK); e = b + d_rn(5); if (e >= NK) e = NK + 1; if (d_rn(4) == 0) b = NK + 1; }
  if (b < NK && e < NK && b > e) { int t = b; b = e; e = t; }
  if (b < NK) bk = d_key(b);
  if (e < NK) ek = d_key(e);
  ldb_test_compact_range(db, level, b < NK ? &bk : NULL, e < NK ? &ek : NULL);
  EV("compact", "\"level\":%d,\"lo\":%d,\"hi\":%d", level, b < NK ? b : -1, e < NK ? e : -1);
}
static void do_compact_all(void) { ldb_compact(db, NULL, NULL); EV("compact_all", "\"x\":0"); }
static void release_all(void) {
  int j;
  for (j = 1; j <= MAXI; j++) if (its[j]) { ldb_iter_destroy(its[j]); its[j] = NULL; EV("iter_free", "\"id\":%d", j); }
  for (j = 1; j <= MAXS; j++) if (snaps[j]) { ldb_release(db, snaps[j]); snaps[j] = NULL; EV("rel", "\"id\":%d", j); }
}
static void *race_compact_thread(void *arg) { ldb_test_compact_range(db, *(int *)arg, NULL, NULL); return NULL; }
static int g_raw_reopen = 0;
static int do_reopen(void) {
  int rc;
  release_all();
  quiesce();
  ldb_close(db); db = NULL;
  EV("closed", "\"x\":0");
  d_ev_ls("ls_closed", dbdir);
  keep_manifests();
  rc = ldb_open(dbdir, &O.o, &db);
  EV("reopen", "\"rc\":%d", rc);
  if (rc != 0) return rc;
  if (!g_raw_reopen) quiesce();     /* quiesce() itself asks for background work; "reopenraw" leaves that to ldb_open */
  return 0;
}
/* keep the immutable memtable alive while reads / iterators are created */
static void do_immhold(int profile) {
  int i;
  do_flush(); /* start from an empty memtable with no flush pending */
  { int k = d_rn(NK), id = nextid++, rc; size_t len = O.o.write_buffer_size + 4096; char *v = d_mkval(id, len); ldb_slice_t key = d_key(k), val = ldb_slice(v, len);
    EV("call_write", "\"ops\":[[%d,%d]]", k, id);
    rc = ldb_put(db, &key, &val, NULL); EV("put", "\"k\":%d,\"v\":%d,\"len\":%lu,\"sync\":0,\"rc\":%d", k, id, (unsigned long)len, rc); free(v); }
  force_small = 1;
  lcdb_verif_hold(20, 1);
  do_put(1); /* triggers the memtable switch; the flush is held after the table is built */
  for (i = 0; i < 12; i++) {
    uint32_t r = d_rn(100);
    if (r < 25) do_get(); else if (r < 40) do_iter_new(); else if (r < 70) do_it(); else if (r < 80) do_scan(); else if (r < 90) do_put(1); else do_snap();
  }
  force_small = 0;
  lcdb_verif_hold(20, 0);
}

/* ---- scripted mode: executes an operation list produced by the specification (LsmGen.tla) ---- */
static void get_one(int k, int s) {
  ldb_readopt_t ro = *ldb_readopt_default; ldb_slice_t key = d_key(k), out; int rc;
  ro.snapshot = s ? snaps[s] : NULL; ro.verify_checksums = 1;
  rc = ldb_get(db, &key, &out, &ro);
  if (rc == 0) { EV("get", "\"k\":%d,\"snap\":%d,\"r\":%d,\"rc\":0", k, s, d_valid(out.data, out.size)); ldb_free(out.data); }
  else if (rc == LDB_NOTFOUND) EV("get", "\"k\":%d,\"snap\":%d,\"r\":0,\"rc\":%d", k, s, rc);
  else EV("get", "\"k\":%d,\"snap\":%d,\"r\":-9,\"rc\":%d", k, s, rc);
}
static void scan_one(int s, int dir) {
  ldb_readopt_t ro = *ldb_iteropt_default; ldb_iter_t *it; int n = 0;
  ro.snapshot = s ? snaps[s] : NULL; ro.verify_checksums = 1;
  it = ldb_iterator(db, &ro);
  lcdb_verif_begin("scan");
  lcdb_verif_add("\"snap\":%d,\"dir\":\"%s\",\"items\":[", s, dir ? "bwd" : "fwd");
  for (dir ? ldb_iter_last(it) : ldb_iter_first(it); ldb_iter_valid(it); dir ? ldb_iter_prev(it) : ldb_iter_next(it)) {
    ldb_slice_t kk = ldb_iter_key(it), vv = ldb_iter_value(it);
    lcdb_verif_add("%s[%d,%d]", n++ ? "," : "", d_rankof(kk), d_valid(vv.data, vv.size));
  }
  lcdb_verif_add("],\"status\":%d", ldb_iter_status(it));
  lcdb_verif_end();
  ldb_iter_destroy(it);
}
static int run_script(const char *path) {
  FILE *f = fopen(path, "r"); char line[256], op[32]; int a, b, c2, n, k, s;
  if (f == NULL) return 2;
  while (fgets(line, sizeof(line), f) != NULL) {
    a = b = c2 = -1; op[0] = 0;
    n = sscanf(line, "%31s %d %d %d", op, &a, &b, &c2);
    if (n < 1 || op[0] == '#') continue;
    if (!strcmp(op, "put")) {
      int id = nextid++, rc; size_t len = b > 0 ? (size_t)b : 20; char *v = d_mkval(id, len); ldb_slice_t key = d_key(a), val = ldb_slice(v, len < 5 ? 5 : len);
      EV("call_write", "\"ops\":[[%d,%d]]", a, id);
      rc = ldb_put(db, &key, &val, NULL);
      EV("put", "\"k\":%d,\"v\":%d,\"len\":%lu,\"sync\":0,\"rc\":%d", a, id, (unsigned long)val.size, rc); free(v);
    } else if (!strcmp(op, "del")) {
      ldb_slice_t key = d_key(a); int rc;
      EV("call_write", "\"ops\":[[%d,0]]", a);
      rc = ldb_del(db, &key, NULL); EV("del", "\"k\":%d,\"rc\":%d", a, rc);
    } else if (!strcmp(op, "flush")) { do_flush(); quiesce(); }
    else if (!strcmp(op, "reopen")) { if (do_reopen() != 0) { fclose(f); return 4; } }
    else if (!strcmp(op, "reopenraw")) { int r; g_raw_reopen = 1; r = do_reopen(); g_raw_reopen = 0; if (r != 0) { fclose(f); return 4; } }
    else if (!strcmp(op, "compact")) {
      ldb_slice_t bk, ek;
      if (b >= 0) bk = d_key(b);
      if (c2 >= 0) ek = d_key(c2);
      ldb_test_compact_range(db, a, b >= 0 ? &bk : NULL, c2 >= 0 ? &ek : NULL);
      EV("compact", "\"level\":%d,\"lo\":%d,\"hi\":%d", a, b, c2);
      quiesce();
    } else if (!strcmp(op, "compactall")) { do_compact_all(); quiesce(); }
    else if (!strcmp(op, "repair")) {
      /* lose or damage the metadata, repair, open: a = 0 CURRENT lost, 1 MANIFEST lost, 2 both, 3 MANIFEST truncated */
      char pth[1200]; DIR *dd; struct dirent *de; int rc;
      release_all(); ldb_close(db); db = NULL; EV("closed", "\"x\":0");
      if (a == 0 || a == 2) { snprintf(pth, sizeof(pth), "%s/CURRENT", dbdir); unlink(pth); }
      if (a == 1 || a == 2 || a == 3) {
        dd = opendir(dbdir);
        while (dd && (de = readdir(dd)) != NULL) if (!strncmp(de->d_name, "MANIFEST-", 9)) {
          snprintf(pth, sizeof(pth), "%s/%s", dbdir, de->d_name);
          if (a == 3) { if (truncate(pth, 10) != 0) unlink(pth); } else unlink(pth);
        }
        if (dd) closedir(dd);
      }
      rc = ldb_repair(dbdir, &O.o);
      EV("repair", "\"rc\":%d,\"variant\":%d", rc, a);
      d_ev_ls("ls_repaired", dbdir);
      rc = ldb_open(dbdir, &O.o, &db);
      EV("reopen", "\"rc\":%d", rc);
      if (rc != 0) { fclose(f); return 4; }
    }
    else if (!strcmp(op, "snap")) { if (a >= 1 && a <= MAXS && !snaps[a]) { snaps[a] = ldb_snapshot(db); EV("snap", "\"id\":%d", a); } }
    else if (!strcmp(op, "rel")) { if (a >= 1 && a <= MAXS && snaps[a]) { ldb_release(db, snaps[a]); snaps[a] = NULL; EV("rel", "\"id\":%d", a); } }
    else if (!strcmp(op, "getall")) {
      for (s = 0; s <= MAXS; s++) { if (s && !snaps[s]) continue; for (k = 0; k < NK; k++) get_one(k, s); }
      scan_one(0, 0);
    } else if (!strcmp(op, "scan")) { for (s = 0; s <= MAXS; s++) { if (s && !snaps[s]) continue; scan_one(s, 0); scan_one(s, 1); } }
    else if (!strcmp(op, "quiesce")) quiesce();
    else if (!strcmp(op, "racecompact")) {
      /* a manual compaction of level a is parked at its b-th input entry (an output file is open by then); meanwhile the memtable
         is filled and switched, so that the compaction thread flushes it in the middle of the compaction and runs the
         obsolete-file pass while its own output is unfinished */
      pthread_t th; static int lvl; int k = 15, id = nextid++, rc; size_t len = O.o.write_buffer_size + 4096; char *v; ldb_slice_t key, val;
      lvl = a;
      lcdb_verif_hold(22, b > 1 ? b : 2);
      pthread_create(&th, NULL, race_compact_thread, &lvl);
      usleep(60000);
      v = d_mkval(id, len); key = d_key(k); val = ldb_slice(v, len);
      EV("call_write", "\"ops\":[[%d,%d]]", k, id);
      rc = ldb_put(db, &key, &val, NULL); EV("put", "\"k\":%d,\"v\":%d,\"len\":%lu,\"sync\":0,\"rc\":%d", k, id, (unsigned long)len, rc); free(v);
      { int id2 = nextid++; char *v2 = d_mkval(id2, 20); ldb_slice_t key2 = d_key(14), val2 = ldb_slice(v2, 20);
        EV("call_write", "\"ops\":[[%d,%d]]", 14, id2);
        rc = ldb_put(db, &key2, &val2, NULL); EV("put", "\"k\":%d,\"v\":%d,\"len\":%lu,\"sync\":0,\"rc\":%d", 14, id2, 20UL, rc); free(v2); }   /* this put switches the memtable */
      lcdb_verif_hold(22, 0);
      pthread_join(th, NULL);
      EV("compact", "\"level\":%d,\"lo\":-1,\"hi\":-1", a);
      quiesce();
    }
    else if (!strcmp(op, "wbuf")) { O.o.write_buffer_size = (size_t)a; EV("note", "\"wbuf\":%d", a); }   /* takes effect at the next open */
  }
  fclose(f);
  return 0;
}

int main(int argc, char **argv) {
  int seed, steps, i, profile = 0, rc; uint32_t bits; char keep[1100];
  if (argc < 5) { fprintf(stderr, "usage: seq seed steps trace dbdir [profile] [optbits]\n"); return 2; }
  seed = atoi(argv[1]); steps = atoi(argv[2]);
  snprintf(dbdir, sizeof(dbdir), "%s", argv[4]);
  if (argc > 5) { const char *p = argv[5]; profile = !strcmp(p, "deep") ? 1 : !strcmp(p, "bigval") ? 2 : !strcmp(p, "iter") ? 3 : !strcmp(p, "snap") ? 4 : !strcmp(p, "auto") ? 5 : !strcmp(p, "autobig") ? 6 : !strcmp(p, "seek") ? 7 : !strcmp(p, "l0chain") ? 8 : 0; }
  g_profile = profile;
  d_seed((uint64_t)seed * 1000003ULL + (uint64_t)profile);
  d_init_keys();
  bits = (argc > 6 && argv[6][0] != '-') ? (uint32_t)strtoul(argv[6], NULL, 0) : d_rnd();
  d_make_opts(&O, bits);
  d_rmrf(dbdir);
  snprintf(keep, sizeof(keep), "%s.keep", dbdir); d_rmrf(keep); mkdir(keep, 0755);
  lcdb_verif_open(argv[3]);
  lcdb_verif_quiet(1);
  lcdb_verif_set_keep(keep);
  EV("Reset", "\"seed\":%d,\"profile\":%d,\"bits\":%u", seed, profile, bits);
  d_ev_opts(&O, NULL);
  d_ev_keys();
  rc = ldb_open(dbdir, &O.o, &db);
  EV("open", "\"rc\":%d", rc);
  if (rc != 0) { lcdb_verif_close(); return 3; }
  if (getenv("VERIF_SCRIPT") != NULL) {
    rc = run_script(getenv("VERIF_SCRIPT"));
    if (rc != 0) { lcdb_verif_close(); return rc; }
    steps = 0;
  }
  for (i = 0; i < steps; i++) {
    uint32_t op = d_rn(1000);
    /* weights per profile: put del batch get snap rel iter_new iter_free it scan flush compact compact_all reopen immhold */
    static const int W[9][15] = {
      {260, 60, 50, 170, 40, 30, 40, 20, 190, 20, 35, 50, 6, 8, 6},
      {330, 80, 60, 120, 30, 25, 20, 15, 60, 15, 120, 100, 5, 10, 5},
      {300, 40, 60, 160, 60, 30, 30, 20, 120, 20, 50, 80, 8, 8, 8},
      {120, 40, 30, 60, 30, 20, 80, 30, 480, 40, 25, 30, 3, 4, 8},
      {250, 70, 50, 180, 110, 70, 40, 20, 80, 30, 40, 70, 6, 6, 6},
      /* auto: only automatic compactions (size / seek triggered); many one-key level-0 files */
      {300, 50, 20, 200, 40, 30, 20, 10, 60, 20, 240, 0, 0, 6, 4},
      /* autobig: large values, many versions pinned by snapshots, automatic compactions only */
      {420, 30, 0, 200, 120, 60, 20, 10, 100, 20, 10, 0, 0, 6, 4},
      /* seek: read-heavy over a multi-level layout, so that seek-triggered compactions (allowed_seeks) fire */
      {60, 10, 10, 760, 10, 10, 10, 5, 40, 10, 30, 30, 0, 5, 10},
      /* l0chain: every reopen turns the log into a level-0 table; ranged manual compactions over chains of
         partially overlapping level-0 files */
      {330, 60, 40, 170, 30, 20, 10, 10, 30, 10, 20, 150, 4, 110, 6}};
    int c = 0, a = 0;
    for (c = 0; c < 15; c++) { a += W[profile][c]; if ((int)op < a) break; }
    switch (c) {
      case 0:
        if (profile == 5 && d_rn(8) == 0) {
          /* a burst of tables each holding one lone key: level-0 files that do not overlap each other, so that a
             size-triggered level-0 compaction has a single input file */
          int j, base = d_rn(2), stride = 3; /* few distinct key sets, so that a later burst lands above the narrow files of an earlier one */
          for (j = 0; j < 5; j++) {
            do_flush(); force_small = 1; force_key = (base + stride * j) % NK; do_put(profile); force_key = -1; force_small = 0; do_flush();
            if (d_rn(2)) do_get();
          }
        } else do_put(profile);
        break; case 1: do_del(); break; case 2: do_batch(profile); break; case 3: do_get(); break;
      case 4: do_snap(); break; case 5: do_rel(); break; case 6: do_iter_new(); break; case 7: do_iter_free(); break;
      case 8: do_it(); break; case 9: do_scan(); break; case 10: do_flush(); if (d_rn(3) == 0) quiesce(); break;
      case 11: do_compact(); if (d_rn(2) == 0) quiesce(); break; case 12: do_compact_all(); quiesce(); break;
      case 13: if (do_reopen() != 0) { lcdb_verif_close(); return 4; } break;
      case 14: if (!any_iter() || 1) do_immhold(profile); break;
      default: do_get(); break;
    }
  }
  release_all();
  quiesce();
  ldb_close(db);
  EV("closed", "\"x\":0");
  d_ev_ls("ls_closed", dbdir);
  keep_manifests();
  lcdb_verif_close();
  d_free_opts(&O);
  if (getenv("VERIF_KEEP_DB") == NULL) { d_rmrf(dbdir); }
  return 0;
}
