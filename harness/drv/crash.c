/* crash.c - workloads for the I/O-level layer (C02 C03 C04 C05 C12 C13 C17).
 *
 *  crash record <seed> <dbdir> <journal> <optbits> <nbatches> <endmode>
 *      runs a write workload under the libc journal; marks "begin"/"ack" per batch.
 *      endmode: 0 = stop without close, 1 = close at the end
 *  crash recover <dir> <out.json> <optbits> <followbase>
 *      opens a (materialised) directory, scans it, optionally writes a follow-up workload,
 *      closes, reopens, scans again. With CRASH_JOURNAL set the recovery itself is journalled.
 *  Fault mode (C12) is selected by environment: FAULT_K, FAULT_PERSIST, FAULT_ERRNO, FAULT_MASK.
 */
#include "drvlib.h"
#include <signal.h>
#include <pthread.h>

#define NDK 12
static d_opts_t O;
static char dkeys[NDK][8];

static void init_dkeys(void) { int i; for (i = 0; i < NDK; i++) sprintf(dkeys[i], "x%02d", i); }

static int g_heavy = 0, g_fit = 0;
static size_t pick_len(void) {
  uint32_t r = d_rn(100);
  if (getenv("CRASH_SMALL") != NULL) return 5 + d_rn(60);
  if (g_heavy) return r < 80 ? 60000 + d_rn(120000) : 50 + d_rn(3000);   /* megabytes of data: compactions with several outputs */
  if (r < 4) return 100000 + d_rn(60000);   /* one batch spanning 3-5 log blocks */
  if (r < 14) return 20000 + d_rn(30000);
  if (r < 30) return 5 + d_rn(20);
  return 50 + d_rn(3000);
}

/* builds batch b; writes its description into desc ("k:vid,k:vid") */
static ldb_batch_t *make_batch(int b, char *desc, int maxops, int small) {
  ldb_batch_t *wb = ldb_batch_create(); char kb[32]; ldb_slice_t k, v; char *val; int n = d_rn(maxops + 1), j, p = 0; size_t len;
  sprintf(kb, "m%05d", b); k = ldb_string(kb);
  val = d_mkval(b * 8 + 7, 6); v = ldb_slice(val, 6); ldb_batch_put(wb, &k, &v); free(val);
  desc[0] = 0;
  if (!small && getenv("CRASH_BIGBATCH") != NULL && b % 3 == 0) {
    /* a batch spanning several 32 KiB log blocks: filler between the marker (first) and the data keys (last), so that a prefix of
       the batch would show as "marker without its data" */
    int f; char zk[128]; char *big = malloc(30000);
    memset(big, 'f', 30000);
    for (f = 0; f < 4; f++) { memset(zk, 'Z', 120); sprintf(zk + 1, "%05d%d", b, f); zk[7] = 'Z'; k = ldb_slice(zk, 120); v = ldb_slice(big, 30000); ldb_batch_put(wb, &k, &v); }
    free(big);
    if (n == 0) n = 1;
  }
  for (j = 0; j < n; j++) {
    int kk = d_rn(NDK); k = ldb_string(dkeys[kk]);
    if (d_rn(5) == 0) { ldb_batch_del(wb, &k); p += sprintf(desc + p, "%s%d:0", j ? "," : "", kk); }
    else { len = small ? 5 + d_rn(200) : pick_len(); val = d_mkval(b * 8 + j, len); v = ldb_slice(val, len < 5 ? 5 : len); ldb_batch_put(wb, &k, &v); free(val);
           p += sprintf(desc + p, "%s%d:%d", j ? "," : "", kk, b * 8 + j); }
  }
  return wb;
}

/* CRASH_BLOCKFIT: a batch (marker + one data key) sized so that its log record ends EXACTLY at the end of a 32 KiB log block
   (after 0, 1 or 2 further full blocks). The current log offset is the size of the newest log file: the writer hands every
   record to the kernel before the write is acknowledged. Returns NULL when no value length fits. */
#include <dirent.h>
#include <sys/stat.h>
static ldb_batch_t *make_fit_batch(int b, char *desc, const char *dbdir) {
  DIR *dh = opendir(dbdir); struct dirent *de; long best = -1; char path[1024]; struct stat st; long s, r, P, L = -1; int vl, kk; ldb_batch_t *wb; char kb[32]; ldb_slice_t k, v; char *val;
  if (dh == NULL) return NULL;
  while ((de = readdir(dh)) != NULL) { size_t n = strlen(de->d_name); if (n > 4 && strcmp(de->d_name + n - 4, ".log") == 0) { long num = atol(de->d_name); if (num > best) best = num; } }
  closedir(dh);
  if (best < 0) return NULL;
  sprintf(path, "%s/%06ld.log", dbdir, best);
  if (stat(path, &st) != 0) return NULL;
  s = (long)(st.st_size % 32768); r = 32768 - s;
  if (r < 7) r += 32768;                      /* the writer pads the block and starts in the next one */
  P = (r >= 32768 ? r - 32768 : 0) + (r % 32768 == 0 ? 32768 : r % 32768) - 7;
  if (r > 32768) P = 32768 - 7;                /* whole next block */
  P += (long)d_rn(3) * 32761;                  /* further full blocks */
  for (vl = 1; vl <= 3; vl++) { long c = P - 32 - vl; int need = c < 128 ? 1 : c < 16384 ? 2 : 3; if (c >= 5 && need == vl) { L = c; break; } }
  if (L < 0) return NULL;
  wb = ldb_batch_create();
  sprintf(kb, "m%05d", b); k = ldb_string(kb); val = d_mkval(b * 8 + 7, 6); v = ldb_slice(val, 6); ldb_batch_put(wb, &k, &v); free(val);
  kk = d_rn(NDK); k = ldb_string(dkeys[kk]); val = d_mkval(b * 8, (size_t)L); v = ldb_slice(val, (size_t)L); ldb_batch_put(wb, &k, &v); free(val);
  sprintf(desc, "%d:%d", kk, b * 8);
  return wb;
}

/* scan the whole database; prints "markers":[...],"data":[[k,vid],...],"status":rc,"bad":n */
static void scan_json(ldb_t *db, FILE *o) {
  ldb_readopt_t ro = *ldb_iteropt_default; ldb_iter_t *it; int nm = 0, nd = 0, bad = 0, i; static int markers[100000]; int dk[NDK], dv[NDK], ndv = 0;
  ro.verify_checksums = 1;
  it = ldb_iterator(db, &ro);
  for (ldb_iter_first(it); ldb_iter_valid(it); ldb_iter_next(it)) {
    ldb_slice_t k = ldb_iter_key(it), v = ldb_iter_value(it); const unsigned char *kp = k.data; int id = d_valid(v.data, v.size);
    if (k.size == 6 && kp[0] == 'm') { char t[8]; int b; memcpy(t, kp + 1, 5); t[5] = 0; b = atoi(t); if (id != b * 8 + 7) bad++; if (nm < 100000) markers[nm++] = b; }
    else if (k.size > 100 && kp[0] == 'Z') { /* long keys of the big-edit follow-up: not part of the compared state */ }
    else if (k.size == 3 && kp[0] == 'x') { char t[4]; memcpy(t, kp + 1, 2); t[2] = 0; if (ndv < NDK) { dk[ndv] = atoi(t); dv[ndv] = id; ndv++; } if (id < 0) bad++; }
    else bad++;
    nd++;
  }
  fprintf(o, "\"markers\":[");
  for (i = 0; i < nm; i++) fprintf(o, "%s%d", i ? "," : "", markers[i]);
  fprintf(o, "],\"data\":[");
  for (i = 0; i < ndv; i++) fprintf(o, "%s[%d,%d]", i ? "," : "", dk[i], dv[i]);
  fprintf(o, "],\"status\":%d,\"bad\":%d", ldb_iter_status(it), bad);
  ldb_iter_destroy(it);
  /* point lookups must agree with the scan */
  { int mism = 0;
    for (i = 0; i < NDK; i++) { ldb_slice_t k = ldb_string(dkeys[i]), v; int rc = ldb_get(db, &k, &v, &ro), j, exp = 0, got;
      for (j = 0; j < ndv; j++) if (dk[j] == i) exp = dv[j];
      got = rc == 0 ? d_valid(v.data, v.size) : rc == LDB_NOTFOUND ? 0 : -9;
      if (rc == 0) ldb_free(v.data);
      if (got != exp) mism++; }
    fprintf(o, ",\"getmismatch\":%d", mism); }
  if (getenv("CRASH_PROBE") != NULL) {
    /* corruption probes: every lookup with its status, and a backward scan */
    fprintf(o, ",\"gets\":[");
    for (i = 0; i < NDK; i++) { ldb_slice_t k = ldb_string(dkeys[i]), v; int rc = ldb_get(db, &k, &v, &ro);
      fprintf(o, "%s[%d,%d,%d]", i ? "," : "", i, rc, rc == 0 ? d_valid(v.data, v.size) : 0); if (rc == 0) ldb_free(v.data); }
    fprintf(o, "],\"bwd\":[");
    { ldb_iter_t *bi = ldb_iterator(db, &ro); int first = 1;
      for (ldb_iter_last(bi); ldb_iter_valid(bi); ldb_iter_prev(bi)) { ldb_slice_t k = ldb_iter_key(bi), v = ldb_iter_value(bi); const unsigned char *kp = k.data;
        if (k.size == 3 && kp[0] == 'x') { char t[4]; memcpy(t, kp + 1, 2); t[2] = 0; fprintf(o, "%s[%d,%d]", first ? "" : ",", atoi(t), d_valid(v.data, v.size)); first = 0; } }
      fprintf(o, "],\"bwdstatus\":%d", ldb_iter_status(bi)); ldb_iter_destroy(bi); }
  }
}

static void arm_faults(void) {
  const char *k = getenv("FAULT_K");
  if (k != NULL) {
    int persist = getenv("FAULT_PERSIST") ? atoi(getenv("FAULT_PERSIST")) : 0;
    int err = getenv("FAULT_ERRNO") ? atoi(getenv("FAULT_ERRNO")) : ENOSPC;
    int mask = getenv("FAULT_MASK") ? atoi(getenv("FAULT_MASK")) : 255;
    io_shim_fail_only_manifest(getenv("FAULT_ONLY_MANIFEST") != NULL);
    io_shim_fail(atol(k), persist, err, mask);
  }
}

static ldb_t *g_db;
static void *race_helper(void *arg) { int level = *(int *)arg; ldb_test_compact_range(g_db, level, NULL, NULL); return NULL; }
static long fired_seen = 0;
static void note_fault(void) {
  char mark[400];
  if (io_shim_fired() != fired_seen) { fired_seen = io_shim_fired(); sprintf(mark, "fault %ld %s", fired_seen, io_shim_fired_desc()); io_shim_mark(mark); }
}

static int cmd_record(int argc, char **argv) {
  int seed = atoi(argv[2]), nb, endmode, b, rc; const char *dbdir = argv[3]; uint32_t bits; ldb_t *db; char desc[512], mark[700];
  int faulting = getenv("FAULT_K") != NULL;
  bits = (uint32_t)strtoul(argv[5], NULL, 0); nb = atoi(argv[6]); endmode = atoi(argv[7]);
  d_seed((uint64_t)seed * 7919ULL + 13); d_init_keys(); init_dkeys();
  d_make_opts(&O, bits); O.o.comparator = NULL; d_set_comparator(0);
  g_heavy = getenv("CRASH_HEAVY") != NULL;
  d_rmrf(dbdir);
  io_shim_root(dbdir); io_shim_journal(argv[4]);
  rc = ldb_open(dbdir, &O.o, &db);
  sprintf(mark, "opened %d", rc); io_shim_mark(mark);
  if (rc != 0) { io_shim_journal(NULL); return 3; }
  arm_faults();
  for (b = 1; b <= nb; b++) {
    ldb_writeopt_t wo = *ldb_writeopt_default; ldb_batch_t *wb; uint32_t r;
    wo.sync = d_rn(4) == 0;
    wb = NULL;
    if (getenv("CRASH_BLOCKFIT") != NULL && b % 2 == 0) { wb = make_fit_batch(b, desc, dbdir); if (wb != NULL) { wo.sync = 0; g_fit++; } }
    if (wb == NULL) wb = make_batch(b, desc, 4, 0);
    sprintf(mark, "begin %d %d %s", b, wo.sync, desc); io_shim_mark(mark);
    rc = ldb_write(db, wb, &wo);
    note_fault();
    sprintf(mark, "ack %d %d %d", b, wo.sync, rc); io_shim_mark(mark);
    ldb_batch_destroy(wb);
    if (g_heavy) usleep(2500); /* a slow writer: the background compaction opens several outputs between two memtable switches */
    if (g_heavy && b == 1) (void)ldb_snapshot(db); /* never released: compactions must keep every version, so they emit many outputs */
    r = g_heavy ? 50 + d_rn(50) : d_rn(100);   /* heavy: automatic flushes and compactions only */
    if (r < 7) { rc = ldb_test_compact_memtable(db); note_fault(); sprintf(mark, "flush %d", rc); io_shim_mark(mark); }
    else if (r < 11) { ldb_test_compact_range(db, d_rn(3), NULL, NULL); note_fault(); io_shim_mark("compact 0"); }
    else if (r < (getenv("CRASH_REOPEN") != NULL ? 26 : 13) && (!faulting || getenv("FAULT_REOPEN") != NULL)) {   /* CRASH_REOPEN: frequent reopen cycles (a recovery rewrites the MANIFEST, switches CURRENT and removes the old logs) */
      ldb_close(db); io_shim_mark("closed 0");
      rc = ldb_open(dbdir, &O.o, &db); note_fault(); sprintf(mark, "opened %d", rc); io_shim_mark(mark);
      if (rc != 0 && faulting) {
        /* FAULT_REOPEN: the open itself met the injected failure and reported it; once the fault has cleared the database must open
           again with everything that was acknowledged */
        io_shim_clear(); io_shim_mark("cleared 0");
        rc = ldb_open(dbdir, &O.o, &db); sprintf(mark, "opened %d", rc); io_shim_mark(mark);
        if (rc != 0) { io_shim_mark("end 0"); io_shim_journal(NULL); return 0; }    /* the directory is checked by the recovery step that follows */
      } else if (rc != 0) { io_shim_journal(NULL); return 4; }
    }
    if (getenv("CRASH_RACE") != NULL && b % 7 == 3 && b + 3 <= nb) {
      /* steer the schedule: park a manual compaction right after its last output file is finished (delay point 21),
         let the writer fill the memtable and switch logs, then let the compaction install and collect garbage
         while the immutable memtable is still pending */
      pthread_t th; int level = (b / 7) % 2; int j;
      g_db = db;
      lcdb_verif_hold(21, 1);
      pthread_create(&th, NULL, race_helper, &level);
      usleep(3000);
      for (j = 0; j < 3; j++) {
        ldb_batch_t *rb; ldb_writeopt_t rwo = *ldb_writeopt_default; char kb[32]; ldb_slice_t k, v; char *val; size_t len = j == 0 ? O.o.write_buffer_size + 4096 : 30;
        b++;
        rb = ldb_batch_create(); sprintf(kb, "m%05d", b); k = ldb_string(kb); val = d_mkval(b * 8 + 7, 6); v = ldb_slice(val, 6); ldb_batch_put(rb, &k, &v); free(val);
        k = ldb_string(dkeys[b % NDK]); val = d_mkval(b * 8, len); v = ldb_slice(val, len); ldb_batch_put(rb, &k, &v); free(val);
        sprintf(mark, "begin %d %d %d:%d", b, 0, b % NDK, b * 8); io_shim_mark(mark);
        rc = ldb_write(db, rb, &rwo);
        sprintf(mark, "ack %d %d %d", b, 0, rc); io_shim_mark(mark);
        ldb_batch_destroy(rb);
      }
      lcdb_verif_hold(21, 0);
      pthread_join(th, NULL);
      io_shim_mark("race 0");
    }
    if (faulting) { /* reads keep returning correct data or an error while faults are active */
      ldb_slice_t k = ldb_string(dkeys[d_rn(NDK)]), v; int g = ldb_get(db, &k, &v, NULL);
      note_fault();
      sprintf(mark, "read %s %d %d", (char *)k.data, g, g == 0 ? d_valid(v.data, v.size) : 0); io_shim_mark(mark);
      if (g == 0) ldb_free(v.data);
    }
  }
  if (getenv("CRASH_BLOCKFIT") != NULL) fprintf(stderr, "blockfit %d\n", g_fit);
  { sprintf(mark, "count %ld", io_shim_count()); io_shim_mark(mark); }
  if (faulting) { io_shim_clear(); io_shim_mark("cleared 0"); }
  if (endmode == 1) { ldb_close(db); io_shim_mark("closed 0"); }
  io_shim_mark("end 0");
  io_shim_journal(NULL);
  _exit(0); /* endmode 0: the process dies without closing */
  return 0;
}

static int cmd_recover(int argc, char **argv) {
  const char *dir = argv[2]; uint32_t bits = (uint32_t)strtoul(argv[4], NULL, 0); int follow = atoi(argv[5]); FILE *o; ldb_t *db; int rc, b; char desc[512];
  d_seed(12345 + follow); d_init_keys(); init_dkeys();
  d_make_opts(&O, bits); O.o.comparator = NULL; d_set_comparator(0);
  O.o.paranoid_checks = 1;
  if (getenv("CRASH_JOURNAL")) { io_shim_root(dir); io_shim_journal(getenv("CRASH_JOURNAL")); }
  o = fopen(argv[3], "w");
  rc = ldb_open(dir, &O.o, &db);
  fprintf(o, "{\"rc\":%d", rc);
  if (rc != 0) { fprintf(o, "}\n"); fclose(o); return 0; }
  fprintf(o, ","); scan_json(db, o);
  if (follow > 0) {
    int wrc = 0, nf = 6;
    fprintf(o, ",\"follow\":{\"ops\":[");
    for (b = follow; b < follow + nf; b++) {
      ldb_batch_t *wb; int r;
      if (b == follow) { /* the first follow-up batch rewrites EVERY data key, so that any resurrected older value shows */
        char kb[32]; ldb_slice_t k, v; char *val; int j, p = 0; wb = ldb_batch_create();
        sprintf(kb, "m%05d", b); k = ldb_string(kb); val = d_mkval(b * 8 + 7, 6); v = ldb_slice(val, 6); ldb_batch_put(wb, &k, &v); free(val);
        for (j = 0; j < NDK; j++) { k = ldb_string(dkeys[j]); val = d_mkval(b * 16 + j, 9); v = ldb_slice(val, 9); ldb_batch_put(wb, &k, &v); free(val); p += sprintf(desc + p, "%s%d:%d", j ? "," : "", j, b * 16 + j); }
      } else wb = make_batch(b, desc, 3, 1);
      { ldb_writeopt_t fwo = *ldb_writeopt_default; fwo.sync = getenv("CRASH_FOLLOW_SYNC") != NULL;   /* C02: the follow-up writes are synced writes */
        r = ldb_write(db, wb, &fwo); }
      ldb_batch_destroy(wb); if (r != 0) wrc = r;
      if (b == follow + 2 && follow % 2 == 0) { r = ldb_test_compact_memtable(db); if (r != 0) wrc = r; } /* even base: forces a MANIFEST edit after recovery; odd base: everything stays in the log */
      fprintf(o, "%s[%d,\"%s\"]", b > follow ? "," : "", b, desc);
    }
    if (follow % 4 == 2) {
      /* big version edits: 3000-byte keys make every flush append kilobytes to the MANIFEST, so that a reused MANIFEST grows past
         a 32 KiB log block while this incarnation runs */
      int rnd;
      for (rnd = 0; rnd < 16; rnd++) {
        char *kb = malloc(3001); ldb_slice_t k, v; int r, j;
        for (j = 0; j < 2; j++) { memset(kb, 'Z', 3000); sprintf(kb + 1, "%03d%d", rnd, j); kb[6] = 'Z'; k = ldb_slice(kb, 3000); v = ldb_string("big"); r = ldb_put(db, &k, &v, NULL); if (r != 0) wrc = r; }
        free(kb);
        r = ldb_test_compact_memtable(db); if (r != 0) wrc = r;
      }
    }
    fprintf(o, "],\"wrc\":%d,", wrc);
    scan_json(db, o);
    ldb_close(db);
    rc = ldb_open(dir, &O.o, &db);
    fprintf(o, ",\"reopen\":{\"rc\":%d", rc);
    if (rc == 0) { fprintf(o, ","); scan_json(db, o); ldb_close(db); }
    fprintf(o, "}}");
  } else {
    ldb_close(db);
    /* opening again must lose nothing further */
    rc = ldb_open(dir, &O.o, &db);
    fprintf(o, ",\"again\":{\"rc\":%d", rc);
    if (rc == 0) { fprintf(o, ","); scan_json(db, o); ldb_close(db); }
    fprintf(o, "}");
  }
  fprintf(o, "}\n"); fclose(o);
  if (getenv("CRASH_JOURNAL")) io_shim_journal(NULL);
  return 0;
}

int main(int argc, char **argv) {
  if (argc >= 8 && !strcmp(argv[1], "record")) return cmd_record(argc, argv);
  if (argc >= 6 && !strcmp(argv[1], "recover")) return cmd_recover(argc, argv);
  fprintf(stderr, "usage: crash record seed dbdir journal optbits nbatches endmode | crash recover dir out optbits follow\n");
  return 2;
}
