#ifndef VERIF_RT_H
#define VERIF_RT_H
/* Runtime side of /repo/src/util/verif.h plus driver-facing control. */
void lcdb_verif_ev(const char *name, const char *fmt, ...);
void lcdb_verif_begin(const char *name);
void lcdb_verif_add(const char *fmt, ...);
void lcdb_verif_end(void);
int lcdb_verif_id(const void *ptr);
int lcdb_verif_newid(const void *ptr);
void lcdb_verif_pt(int point);
void lcdb_verif_mtx(const void *mtx, int op);
void lcdb_verif_own(const char *what, int op);
void lcdb_verif_acc(const char *obj, const void *inst, int write);
void lcdb_verif_keep(const char *dbname, unsigned long number);
/* control */
void lcdb_verif_open(const char *path);
void lcdb_verif_close(void);
void lcdb_verif_flush(void);
int lcdb_verif_enabled(void);
int lcdb_verif_tid(void);
void lcdb_verif_quiet(int mask);
void lcdb_verif_sched(unsigned long seed);
void lcdb_verif_hold(int point, int on);
void lcdb_verif_set_keep(const char *dir);

/* I/O shim (io_shim.c) */
void io_shim_root(const char *dir);               /* journal + faults apply to paths under dir */
void io_shim_journal(const char *path);           /* start journalling to file (NULL = stop) */
void io_shim_mark(const char *text);              /* driver annotation line in the journal */
void io_shim_fail(long k, int persistent, int err, int classmask); /* arm: k-th eligible call fails */
void io_shim_fail_only_manifest(int on);                            /* restrict injected faults to MANIFEST descriptors */
void io_shim_clear(void);
long io_shim_count(void);                         /* eligible calls seen since last arm/clear */
long io_shim_fired(void);                         /* number of injected failures so far */
const char *io_shim_fired_desc(void);
#endif
