/* io_shim.c - libc-boundary recorder and fault injector.
 *
 * Defining these symbols in the executable overrides the calls made by the statically
 * linked lcdb objects; real calls are made with syscall(2). Only paths under the
 * configured root are journalled / eligible for faults. The journal is serialised by
 * one lock; an entry is written after its system call returned, before the calling
 * thread proceeds, so journal order is consistent with happens-before.
 */
#define _GNU_SOURCE
#include <errno.h>
#include <fcntl.h>
#include <pthread.h>
#include <stdarg.h>
#include <stdint.h>
#include <stdio.h>
#include <stdlib.h>
#include <string.h>
#include <sys/mman.h>
#include <sys/stat.h>
#include <sys/syscall.h>
#include <sys/types.h>
#include <unistd.h>
#include "verif_rt.h"

#define MAXFD 4096
enum { C_OPEN = 1, C_WRITE = 2, C_SYNC = 4, C_RENAME = 8, C_UNLINK = 16, C_CLOSE = 32, C_MKLINK = 64, C_READ = 128 };

static pthread_mutex_t s_mu = PTHREAD_MUTEX_INITIALIZER;
static char s_root[1024];
static size_t s_rootlen = 0;
static FILE *s_j = NULL;
static unsigned long s_n = 0;
static unsigned char s_tracked[MAXFD];
static unsigned char s_isman[MAXFD];   /* the descriptor is a MANIFEST-* file */
static int s_only_manifest = 0;         /* faults are injected only into calls on MANIFEST descriptors */
static int64_t s_off[MAXFD];
/* faults */
static long s_count = 0, s_failk = 0, s_fired = 0;
static int s_persist = 0, s_err = 0, s_mask = 0, s_armed = 0, s_tripped = 0;
static char s_desc[256];

static int under_root(const char *p) {
  return s_rootlen > 0 && p != NULL && strncmp(p, s_root, s_rootlen) == 0 &&
         (p[s_rootlen] == '/' || p[s_rootlen] == 0);
}

void io_shim_root(const char *dir) {
  pthread_mutex_lock(&s_mu);
  if (dir == NULL) { s_root[0] = 0; s_rootlen = 0; }
  else { snprintf(s_root, sizeof(s_root), "%s", dir); s_rootlen = strlen(s_root); }
  memset(s_tracked, 0, sizeof(s_tracked));
  pthread_mutex_unlock(&s_mu);
}

void io_shim_journal(const char *path) {
  pthread_mutex_lock(&s_mu);
  if (s_j != NULL) fclose(s_j);
  s_j = NULL;
  if (path != NULL) {
    s_j = fopen(path, "w");
    if (s_j != NULL) setvbuf(s_j, NULL, _IOFBF, 1 << 20);
    s_n = 0;
  }
  pthread_mutex_unlock(&s_mu);
}

void io_shim_mark(const char *text) {
  pthread_mutex_lock(&s_mu);
  if (s_j != NULL) fprintf(s_j, "# %lu %d %s\n", ++s_n, lcdb_verif_tid(), text);
  pthread_mutex_unlock(&s_mu);
}

void io_shim_fail(long k, int persistent, int err, int classmask) {
  pthread_mutex_lock(&s_mu);
  s_count = 0; s_failk = k; s_persist = persistent; s_err = err; s_mask = classmask;
  s_armed = 1; s_tripped = 0; s_fired = 0; s_desc[0] = 0;
  pthread_mutex_unlock(&s_mu);
}

void io_shim_fail_only_manifest(int on) { s_only_manifest = on; }

void io_shim_clear(void) {
  pthread_mutex_lock(&s_mu);
  s_armed = 0; s_tripped = 0;
  pthread_mutex_unlock(&s_mu);
}

long io_shim_count(void) { return s_count; }
long io_shim_fired(void) { return s_fired; }
const char *io_shim_fired_desc(void) { return s_desc; }

/* returns errno to inject, or 0 */
static int fault(int cls, const char *what, const char *path, int fd) {
  int e = 0;
  pthread_mutex_lock(&s_mu);
  s_count++;
  if (s_armed && (s_mask & cls) && (!s_only_manifest || (fd >= 0 && fd < MAXFD && s_isman[fd]))) {
    if (s_tripped && s_persist) e = s_err;
    else if (!s_tripped && s_count >= s_failk) { s_tripped = 1; e = s_err; }
    if (e) {
      s_fired++;
      if (s_desc[0] == 0)
        snprintf(s_desc, sizeof(s_desc), "%s %s fd=%d call#%ld", what, path ? path + (s_rootlen ? s_rootlen + 1 : 0) : "-", fd, s_count);
      if (!s_persist) s_armed = 0;
    }
  }
  pthread_mutex_unlock(&s_mu);
  return e;
}

/* count only (no class match needed) */
static int fd_tracked(int fd) { return fd >= 0 && fd < MAXFD && s_tracked[fd]; }

#define JLOCK() pthread_mutex_lock(&s_mu)
#define JUNLOCK() pthread_mutex_unlock(&s_mu)

static int do_open(const char *path, int flags, mode_t mode) {
  int fd, e;
  if (!under_root(path))
    return (int)syscall(SYS_openat, AT_FDCWD, path, flags, mode);
  if ((e = fault((flags & (O_CREAT | O_WRONLY | O_RDWR)) ? C_OPEN : (C_OPEN | C_READ), "open", path, -1))) {
    JLOCK();
    if (s_j) fprintf(s_j, "O %lu %d -1 %d %d %s\n", ++s_n, lcdb_verif_tid(), flags, e, path + s_rootlen);
    JUNLOCK();
    errno = e;
    return -1;
  }
  fd = (int)syscall(SYS_openat, AT_FDCWD, path, flags, mode);
  e = errno;
  JLOCK();
  if (fd >= 0 && fd < MAXFD) {
    struct stat st;
    s_tracked[fd] = 1;
    s_off[fd] = 0;
    { const char *b = strrchr(path, '/'); b = b ? b + 1 : path; s_isman[fd] = strncmp(b, "MANIFEST-", 9) == 0; }
    if ((flags & O_APPEND) && syscall(SYS_fstat, fd, &st) == 0) s_off[fd] = st.st_size;
  }
  if (s_j) fprintf(s_j, "O %lu %d %d %d %d %s\n", ++s_n, lcdb_verif_tid(), fd, flags, fd < 0 ? e : 0, path + s_rootlen);
  JUNLOCK();
  errno = e;
  return fd;
}

int open(const char *path, int flags, ...) {
  mode_t mode = 0;
  if (flags & (O_CREAT | O_TMPFILE)) { va_list ap; va_start(ap, flags); mode = va_arg(ap, mode_t); va_end(ap); }
  return do_open(path, flags, mode);
}

int open64(const char *path, int flags, ...) {
  mode_t mode = 0;
  if (flags & (O_CREAT | O_TMPFILE)) { va_list ap; va_start(ap, flags); mode = va_arg(ap, mode_t); va_end(ap); }
  return do_open(path, flags, mode);
}

int close(int fd) {
  int r, e;
  if (!fd_tracked(fd)) return (int)syscall(SYS_close, fd);
  if ((e = fault(C_CLOSE, "close", NULL, fd))) {
    /* the descriptor is released even when close reports an error */
    syscall(SYS_close, fd);
    JLOCK(); s_tracked[fd] = 0;
    if (s_j) fprintf(s_j, "C %lu %d %d %d\n", ++s_n, lcdb_verif_tid(), fd, e);
    JUNLOCK();
    errno = e; return -1;
  }
  /* journal before the real close so that fd reuse by another thread cannot precede this entry */
  JLOCK(); s_tracked[fd] = 0;
  if (s_j) fprintf(s_j, "C %lu %d %d 0\n", ++s_n, lcdb_verif_tid(), fd);
  JUNLOCK();
  r = (int)syscall(SYS_close, fd);
  return r;
}

ssize_t write(int fd, const void *buf, size_t len) {
  ssize_t r; int e;
  if (!fd_tracked(fd)) return syscall(SYS_write, fd, buf, len);
  if ((e = fault(C_WRITE, "write", NULL, fd))) {
    JLOCK();
    if (s_j) fprintf(s_j, "W %lu %d %d %ld 0 %d\n\n", ++s_n, lcdb_verif_tid(), fd, (long)s_off[fd], e);
    JUNLOCK();
    errno = e; return -1;
  }
  r = syscall(SYS_write, fd, buf, len);
  e = errno;
  JLOCK();
  if (s_j) {
    fprintf(s_j, "W %lu %d %d %ld %ld %d\n", ++s_n, lcdb_verif_tid(), fd, (long)s_off[fd], (long)(r > 0 ? r : 0), r < 0 ? e : 0);
    if (r > 0) fwrite(buf, 1, (size_t)r, s_j);
    fputc('\n', s_j);
  }
  if (r > 0) s_off[fd] += r;
  JUNLOCK();
  errno = e;
  return r;
}

static int do_sync(int fd, int data) {
  int r, e;
  if (!fd_tracked(fd)) return (int)syscall(data ? SYS_fdatasync : SYS_fsync, fd);
  if ((e = fault(C_SYNC, "fsync", NULL, fd))) {
    JLOCK(); if (s_j) fprintf(s_j, "S %lu %d %d %d\n", ++s_n, lcdb_verif_tid(), fd, e); JUNLOCK();
    errno = e; return -1;
  }
  /* the real sync is skipped: durability is modelled, not needed, and this keeps runs fast */
  r = 0;
  JLOCK(); if (s_j) fprintf(s_j, "S %lu %d %d 0\n", ++s_n, lcdb_verif_tid(), fd); JUNLOCK();
  return r;
}
int fsync(int fd) { return do_sync(fd, 0); }
int fdatasync(int fd) { return do_sync(fd, 1); }

int ftruncate(int fd, off_t len) {
  int r, e;
  if (!fd_tracked(fd)) return (int)syscall(SYS_ftruncate, fd, len);
  r = (int)syscall(SYS_ftruncate, fd, len); e = errno;
  JLOCK(); if (s_j) fprintf(s_j, "T %lu %d %d %ld %d\n", ++s_n, lcdb_verif_tid(), fd, (long)len, r < 0 ? e : 0); JUNLOCK();
  errno = e; return r;
}

int rename(const char *a, const char *b) {
  int r, e;
  if (!under_root(a) && !under_root(b)) return (int)syscall(SYS_renameat, AT_FDCWD, a, AT_FDCWD, b);
  if ((e = fault(C_RENAME, "rename", a, -1))) {
    JLOCK(); if (s_j) fprintf(s_j, "R %lu %d %d %s\t%s\n", ++s_n, lcdb_verif_tid(), e, a + s_rootlen, b + s_rootlen); JUNLOCK();
    errno = e; return -1;
  }
  r = (int)syscall(SYS_renameat, AT_FDCWD, a, AT_FDCWD, b); e = errno;
  JLOCK(); if (s_j) fprintf(s_j, "R %lu %d %d %s\t%s\n", ++s_n, lcdb_verif_tid(), r < 0 ? e : 0, under_root(a) ? a + s_rootlen : a, under_root(b) ? b + s_rootlen : b); JUNLOCK();
  errno = e; return r;
}

int unlink(const char *p) {
  int r, e;
  if (!under_root(p)) return (int)syscall(SYS_unlinkat, AT_FDCWD, p, 0);
  if ((e = fault(C_UNLINK, "unlink", p, -1))) {
    JLOCK(); if (s_j) fprintf(s_j, "U %lu %d %d %s\n", ++s_n, lcdb_verif_tid(), e, p + s_rootlen); JUNLOCK();
    errno = e; return -1;
  }
  r = (int)syscall(SYS_unlinkat, AT_FDCWD, p, 0); e = errno;
  JLOCK(); if (s_j) fprintf(s_j, "U %lu %d %d %s\n", ++s_n, lcdb_verif_tid(), r < 0 ? e : 0, p + s_rootlen); JUNLOCK();
  errno = e; return r;
}

int link(const char *a, const char *b) {
  int r, e;
  if (!under_root(a) && !under_root(b)) return (int)syscall(SYS_linkat, AT_FDCWD, a, AT_FDCWD, b, 0);
  if ((e = fault(C_MKLINK, "link", a, -1))) {
    JLOCK(); if (s_j) fprintf(s_j, "L %lu %d %d %s\t%s\n", ++s_n, lcdb_verif_tid(), e, a, b); JUNLOCK();
    errno = e; return -1;
  }
  r = (int)syscall(SYS_linkat, AT_FDCWD, a, AT_FDCWD, b, 0); e = errno;
  JLOCK(); if (s_j) fprintf(s_j, "L %lu %d %d %s\t%s\n", ++s_n, lcdb_verif_tid(), r < 0 ? e : 0, a, b); JUNLOCK();
  errno = e; return r;
}

int mkdir(const char *p, mode_t mode) {
  int r, e;
  if (!under_root(p)) return (int)syscall(SYS_mkdirat, AT_FDCWD, p, mode);
  if ((e = fault(C_MKLINK, "mkdir", p, -1))) { errno = e; return -1; }
  r = (int)syscall(SYS_mkdirat, AT_FDCWD, p, mode); e = errno;
  JLOCK(); if (s_j) fprintf(s_j, "M %lu %d %d %s\n", ++s_n, lcdb_verif_tid(), r < 0 ? e : 0, p + s_rootlen); JUNLOCK();
  errno = e; return r;
}

int rmdir(const char *p) {
  int r, e;
  if (!under_root(p)) return (int)syscall(SYS_unlinkat, AT_FDCWD, p, AT_REMOVEDIR);
  r = (int)syscall(SYS_unlinkat, AT_FDCWD, p, AT_REMOVEDIR); e = errno;
  JLOCK(); if (s_j) fprintf(s_j, "D %lu %d %d %s\n", ++s_n, lcdb_verif_tid(), r < 0 ? e : 0, p + s_rootlen); JUNLOCK();
  errno = e; return r;
}

ssize_t read(int fd, void *buf, size_t len) {
  int e;
  if (fd_tracked(fd) && (e = fault(C_READ, "read", NULL, fd))) { errno = e; return -1; }
  return syscall(SYS_read, fd, buf, len);
}

ssize_t pread(int fd, void *buf, size_t len, off_t off) {
  int e;
  if (fd_tracked(fd) && (e = fault(C_READ, "pread", NULL, fd))) { errno = e; return -1; }
  return syscall(SYS_pread64, fd, buf, len, off);
}

ssize_t pread64(int fd, void *buf, size_t len, off_t off) {
  int e;
  if (fd_tracked(fd) && (e = fault(C_READ, "pread", NULL, fd))) { errno = e; return -1; }
  return syscall(SYS_pread64, fd, buf, len, off);
}

void *mmap(void *addr, size_t len, int prot, int flags, int fd, off_t off) {
  int e;
  if (fd_tracked(fd) && (e = fault(C_READ, "mmap", NULL, fd))) { errno = e; return MAP_FAILED; }
  return (void *)syscall(SYS_mmap, addr, len, prot, flags, fd, off);
}
