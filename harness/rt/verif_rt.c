/* verif_rt.c - hook runtime for lcdb verification (linked with -DLCDB_VERIF builds).
 *
 * One emitter lock orders every event; "n" is taken under it. Events carry the
 * emitting thread's small id. Nothing here calls back into lcdb.
 */
#define _GNU_SOURCE
#include <errno.h>
#include <fcntl.h>
#include <pthread.h>
#include <sched.h>
#include <stdarg.h>
#include <stdint.h>
#include <stdio.h>
#include <stdlib.h>
#include <string.h>
#include <sys/syscall.h>
#include <unistd.h>
#include "verif_rt.h"

static pthread_mutex_t g_mu = PTHREAD_MUTEX_INITIALIZER;
static FILE *g_out = NULL;
static int g_linebuf = 0;
static uint64_t g_n = 0;
static int g_next_tid = 0;
static int g_acc_on = 0;
static int g_mtx_on = 0;
static __thread int t_id = 0;
static __thread char t_buf[1 << 16];
static __thread size_t t_len = 0;
static __thread const char *t_name = NULL;

/* ---- pointer -> id map (under g_mu) ---- */
#define MAPSZ (1 << 16)
static const void *g_keys[MAPSZ];
static int g_vals[MAPSZ];
static int g_next_id = 1;

static int map_get(const void *p, int fresh) {
  size_t h = ((uintptr_t)p >> 3) * 0x9E3779B97F4A7C15ULL >> 48;
  size_t i;
  for (i = 0; i < MAPSZ; i++) {
    size_t j = (h + i) & (MAPSZ - 1);
    if (g_keys[j] == p) {
      if (fresh) g_vals[j] = g_next_id++;
      return g_vals[j];
    }
    if (g_keys[j] == NULL) {
      g_keys[j] = p;
      g_vals[j] = g_next_id++;
      return g_vals[j];
    }
  }
  return -1;
}

static int my_tid(void) {
  if (t_id == 0) t_id = __sync_add_and_fetch(&g_next_tid, 1);
  return t_id;
}

int lcdb_verif_tid(void) { return my_tid(); }

/* ---- lockset (thread local) ---- */
#define MAXHELD 16
static __thread const void *t_held[MAXHELD];
static __thread int t_nheld = 0;
static __thread int t_own = 0; /* bit 0 LEADER, bit 1 BG */

void lcdb_verif_mtx(const void *m, int op) {
  int i;
  if (!g_mtx_on) return;
  if (op) {
    if (t_nheld < MAXHELD) t_held[t_nheld++] = m;
  } else {
    for (i = t_nheld - 1; i >= 0; i--) {
      if (t_held[i] == m) {
        t_held[i] = t_held[--t_nheld];
        break;
      }
    }
  }
}

void lcdb_verif_own(const char *what, int op) {
  int bit = (what[0] == 'L') ? 1 : 2;
  if (op) t_own |= bit; else t_own &= ~bit;
}

/* ---- control ---- */
void lcdb_verif_open(const char *path) {
  const char *e;
  pthread_mutex_lock(&g_mu);
  if (g_out != NULL) fclose(g_out);
  g_out = fopen(path, "a");
  if (g_out != NULL) setvbuf(g_out, NULL, _IOFBF, 1 << 20);
  e = getenv("LCDB_VERIF_LINEBUF");
  g_linebuf = (e != NULL && e[0] == '1');
  e = getenv("LCDB_VERIF_ACC");
  g_acc_on = (e != NULL && e[0] == '1');
  g_mtx_on = g_acc_on;
  pthread_mutex_unlock(&g_mu);
}

void lcdb_verif_close(void) {
  pthread_mutex_lock(&g_mu);
  if (g_out != NULL) fclose(g_out);
  g_out = NULL;
  pthread_mutex_unlock(&g_mu);
}

void lcdb_verif_flush(void) {
  pthread_mutex_lock(&g_mu);
  if (g_out != NULL) fflush(g_out);
  pthread_mutex_unlock(&g_mu);
}

int lcdb_verif_enabled(void) { return g_out != NULL; }

static int g_quiet_mask = 0; /* bit 0: suppress Cv and pool events (API-level runs) */
void lcdb_verif_quiet(int mask) { g_quiet_mask = mask; }

/* ---- emit ---- */
static void emit_locked(const char *name, const char *body, size_t len) {
  fprintf(g_out, "{\"n\":%lu,\"t\":%d,\"e\":\"%s\"", (unsigned long)++g_n, my_tid(), name);
  if (len > 0) {
    fputc(',', g_out);
    fwrite(body, 1, len, g_out);
  }
  fputs("}\n", g_out);
  if (g_linebuf) fflush(g_out);
}

static int suppressed(const char *name) {
  if (g_quiet_mask & 1) {
    if (name[0] == 'C' && name[1] == 'v') return 1;
    if (name[0] == 'P' && name[1] == 'o') return 1;
  }
  return 0;
}

void lcdb_verif_ev(const char *name, const char *fmt, ...) {
  char buf[4096];
  va_list ap;
  int len;
  if (g_out == NULL || suppressed(name)) return;
  va_start(ap, fmt);
  len = vsnprintf(buf, sizeof(buf), fmt, ap);
  va_end(ap);
  if (len < 0) len = 0;
  if (len >= (int)sizeof(buf)) len = sizeof(buf) - 1;
  /* ids referenced in the arguments were resolved before the lock; order is fixed here */
  pthread_mutex_lock(&g_mu);
  if (g_out != NULL) emit_locked(name, buf, (size_t)len);
  pthread_mutex_unlock(&g_mu);
}

void lcdb_verif_begin(const char *name) {
  t_name = name;
  t_len = 0;
}

void lcdb_verif_add(const char *fmt, ...) {
  va_list ap;
  int len;
  if (g_out == NULL || t_name == NULL) return;
  if (t_len >= sizeof(t_buf) - 1) return;
  va_start(ap, fmt);
  len = vsnprintf(t_buf + t_len, sizeof(t_buf) - t_len, fmt, ap);
  va_end(ap);
  if (len > 0) {
    t_len += (size_t)len;
    if (t_len >= sizeof(t_buf)) t_len = sizeof(t_buf) - 1;
  }
}

void lcdb_verif_end(void) {
  if (g_out == NULL || t_name == NULL) return;
  pthread_mutex_lock(&g_mu);
  if (g_out != NULL) emit_locked(t_name, t_buf, t_len);
  pthread_mutex_unlock(&g_mu);
  t_name = NULL;
}

int lcdb_verif_id(const void *ptr) {
  int r;
  if (g_out == NULL) return 0;
  pthread_mutex_lock(&g_mu);
  r = map_get(ptr, 0);
  pthread_mutex_unlock(&g_mu);
  return r;
}

int lcdb_verif_newid(const void *ptr) {
  int r;
  if (g_out == NULL) return 0;
  pthread_mutex_lock(&g_mu);
  r = map_get(ptr, 1);
  pthread_mutex_unlock(&g_mu);
  return r;
}

void lcdb_verif_acc(const char *obj, const void *inst, int write) {
  char locks[256];
  int i, n = 0;
  if (g_out == NULL || !g_acc_on) return;
  locks[0] = 0;
  for (i = 0; i < t_nheld && n < 200; i++)
    n += sprintf(locks + n, "%s%d", i ? "," : "", lcdb_verif_id(t_held[i]));
  lcdb_verif_ev("Acc", "\"obj\":\"%s\",\"inst\":%d,\"w\":%d,\"locks\":[%s],\"own\":%d",
                obj, lcdb_verif_id(inst), write, locks, t_own);
}

/* ---- delay points ---- */
static int g_sched_on = -1;
static uint64_t g_sched_seed = 0;
static volatile int g_hold[64];
static volatile int g_skip[64];     /* arrivals that still pass a held point (hold from the n-th arrival on) */
static __thread uint64_t t_rs = 0;
static __thread int t_prio = -1;

void lcdb_verif_sched(unsigned long seed) {
  g_sched_seed = seed;
  g_sched_on = seed != 0;
}

void lcdb_verif_hold(int point, int on) {
  if (point >= 0 && point < 64) { g_skip[point] = on > 1 ? on - 1 : 0; g_hold[point] = on ? 1 : 0; }
}

static uint32_t trnd(void) {
  t_rs ^= t_rs << 13;
  t_rs ^= t_rs >> 7;
  t_rs ^= t_rs << 17;
  return (uint32_t)(t_rs >> 11);
}

void lcdb_verif_pt(int point) {
  if (point >= 0 && point < 64) {
    int spins = 0;
    if (g_hold[point] && g_skip[point] > 0) g_skip[point]--;
    else while (g_hold[point] && spins++ < 200000) usleep(50);
  }
  if (g_sched_on < 0) {
    const char *e = getenv("LCDB_VERIF_SCHED");
    g_sched_seed = e ? strtoul(e, NULL, 10) : 0;
    g_sched_on = g_sched_seed != 0;
  }
  if (!g_sched_on) return;
  if (t_rs == 0) {
    t_rs = (g_sched_seed * 0x9E3779B97F4A7C15ULL) ^ ((uint64_t)my_tid() * 0xD1B54A32D192ED03ULL) ^ 88172645463325252ULL;
    trnd(); trnd();
    t_prio = (int)(trnd() % 4);
  }
  {
    uint32_t r = trnd() % 100;
    /* low-priority threads sleep more often: PCT-style perturbation */
    if (r < (uint32_t)(10 + 15 * t_prio)) {
      if (r & 1) sched_yield(); else usleep(trnd() % 200);
    }
    if (trnd() % 400 == 0) t_prio = (int)(trnd() % 4); /* priority change point */
  }
}

/* ---- keep finished tables ---- */
static char g_keep[512];
static int g_keep_serial = 0;

void lcdb_verif_set_keep(const char *dir) {
  if (dir == NULL) g_keep[0] = 0;
  else snprintf(g_keep, sizeof(g_keep), "%s", dir);
}

void lcdb_verif_keep(const char *dbname, unsigned long number) {
  char src[1024], dst[1024];
  int serial;
  if (g_keep[0] == 0 || g_out == NULL) return;
  serial = __sync_add_and_fetch(&g_keep_serial, 1);
  snprintf(src, sizeof(src), "%s/%06lu.ldb", dbname, number);
  snprintf(dst, sizeof(dst), "%s/%06lu.%d.ldb", g_keep, number, serial);
  if (syscall(SYS_linkat, AT_FDCWD, src, AT_FDCWD, dst, 0) == 0)
    lcdb_verif_ev("Kept", "\"num\":%lu,\"file\":\"%06lu.%d.ldb\"", number, number, serial);
  else
    lcdb_verif_ev("KeepFailed", "\"num\":%lu,\"errno\":%d", number, errno);
}
