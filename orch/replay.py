"""./check replay <dir>: re-run a recorded violation.
 1. specification side: every stored trace is validated again with the module / configuration it was rejected by
    (tv.json, written next to the trace when the violation was reported);
 2. implementation side, where the record names a repeatable execution (generated script, seq / conc / life seed,
    crash workload): the execution is run again on the CURRENT tree of /repo and validated the same way.
Exit 1 + a VIOLATION line if the violation is still there (2. when available, else 1.), 0 otherwise."""
import json, os, sys
from . import common as c
from . import seqrun as sr
from .common import log


def _spec_side(path):
    tvp = os.path.join(path, 'tv.json')
    if not os.path.exists(tvp):
        return None
    tv = json.load(open(tvp)); rej = 0
    for fn, t in tv.items():
        r = c.trace_validate(t['module'], t['cfg'], os.path.join(path, fn), header_lines=t.get('header_lines', 0), silent_steps=t.get('silent_steps', False),
                             heap=t.get('heap', '4g'), extra_env=t.get('extra_env') or None, timeout=1500)
        if r['accepted']:
            print('spec side: %s is accepted by %s (%s)' % (fn, t['module'], t['cfg']))
        else:
            rej += 1
            print('spec side: %s rejected by %s (%s): %s at trace line %s of %d' % (fn, t['module'], t['cfg'], r['violated'] or 'no action explains the event',
                                                                                  (r['prefix'] + 1) if r['prefix'] is not None else '?', r['lines']))
    return rej > 0


def _script(info, path):
    from . import p_lsm, p_api, lsmenrich as le, ldbref
    prop = info['prop']
    lib = c.build_lib(); exe = c.build_driver('seq', lib); ldbref.build()
    ex = sr.Exec(1, 0, 'mixed', bits=info.get('bits', 1 << 17)); ex.script = os.path.join(path, 'script.txt')
    sr.run_exec(exe, ex, env={'VERIF_SCRIPT': ex.script})
    if ex.rc != 0:
        print('code side: the generated behaviour does not complete (exit %s)' % ex.rc); return True
    evs = sr.load_events(ex.trace); bad = False
    keep = p_api.PLANS[prop][0] if prop in p_api.PLANS else p_api.PLANS['C01'][0]
    if prop == 'C19': keep = lambda e: e['e'] in sr.API_ALL or e['e'] == 'repair'     # as run_c19
    layers = []
    if prop in p_api.PLANS or prop == 'C19':
        layers.append(('KvTrace', 'KvTrace_C19.cfg' if prop == 'C19' else 'KvTrace.cfg', [e for e in evs if keep(e)]))
    if prop != 'C19':
        enr, _ = le.enrich(evs, os.path.join(ex.dir, 'db.keep'))
        layers.append(('LsmTrace', 'LsmTrace_%s.cfg' % prop, enr))
    for mod, cfg, es in layers:
        tp = os.path.join(ex.dir, mod + '.ndjson'); sr.write_trace(tp, es)
        r = c.trace_validate(mod, cfg, tp, timeout=1200, heap='4g')
        print('code side: script on the current tree: %s (%s) %s' % (mod, cfg, 'accepts' if r['accepted'] else 'REJECTS: %s at line %s' % (r['violated'] or 'no action explains', r['prefix'])))
        bad = bad or not r['accepted']
    c.rmtree(ex.dir)
    return bad


def _seq(info, path):
    from . import p_lsm, p_api, lsmenrich as le, ldbref
    prop = info.get('prop'); e = info.get('exec')
    if isinstance(e, str):
        import ast
        e = ast.literal_eval(e)
    if not e or not prop: return None
    lib = c.build_lib(); exe = c.build_driver('seq', lib); ldbref.build()
    ex = sr.Exec(e['seed'], e['steps'], e['profile'], e.get('bits'))
    sr.run_exec(exe, ex, keep_db=True)
    if ex.rc != 0:
        print('code side: execution does not complete (exit %s)' % ex.rc); c.rmtree(ex.dir); return True
    evs = sr.load_events(ex.trace); layer = info.get('layer', 'KvTrace')
    if layer == 'KvTrace' and prop in p_api.PLANS:
        keep, post = p_api.PLANS[prop][0], p_api.PLANS[prop][1]
        es = [x for x in evs if keep(x)]
        if post: es = post(es)
        mod, cfg = 'KvTrace', 'KvTrace.cfg'
    elif layer == 'LsmTrace':
        es, _ = le.enrich(evs, os.path.join(ex.dir, 'db.keep')); mod, cfg = 'LsmTrace', 'LsmTrace_%s.cfg' % prop
    else:
        c.rmtree(ex.dir); return None
    tp = os.path.join(ex.dir, 'replay.ndjson'); sr.write_trace(tp, es)
    r = c.trace_validate(mod, cfg, tp, timeout=1200, heap='4g')
    print('code side: seed %s profile %s on the current tree: %s (%s) %s' % (e['seed'], e['profile'], mod, cfg, 'accepts' if r['accepted'] else 'REJECTS: %s at line %s' % (r['violated'] or 'no action explains', r['prefix'])))
    c.rmtree(ex.dir)
    return not r['accepted']


def _conc(info, path):
    from . import p_conc
    e = info.get('exec'); cfg = info.get('cfg')
    if not e or not cfg: return None
    lib = c.build_lib(); exe = c.build_driver('conc', lib); bad = False
    for k in range(4):
        ex = p_conc.CExec(e['seed'] + 7919 * k, e['threads'], e['ops'], e['mode']); p_conc.run_conc(exe, ex)
        if ex.rc == 3 or ex.timed_out:
            print('code side: run %d hangs' % k); bad = True
        elif ex.rc == 0:
            es = [x for x in sr.load_events(ex.trace) if x['e'] in p_conc.CON]
            tp = os.path.join(ex.dir, 'conc.ndjson'); sr.write_trace(tp, es)
            r = c.trace_validate('ConcTrace', cfg, tp, timeout=900, heap='4g')
            print('code side: run %d (schedules differ between runs): ConcTrace (%s) %s' % (k, cfg, 'accepts' if r['accepted'] else 'REJECTS at line %s' % r['prefix']))
            bad = bad or not r['accepted']
        if ex.dir: c.rmtree(ex.dir)
        if bad: break
    return bad


def _life(info, path):
    from . import p_life
    lib = c.build_lib(); exe = c.build_driver('life', lib)
    d, tr, p = p_life.run_life(exe, info['seed'], info['steps'])
    if p.returncode != 0:
        print('code side: lifecycle driver exit %s' % p.returncode); c.rmtree(d); return True
    es = [x for x in sr.load_events(tr) if x['e'] in p_life.LIFE]
    tp = os.path.join(d, 'life.ndjson'); sr.write_trace(tp, es)
    r = c.trace_validate('LifeTrace', 'LifeTrace.cfg', tp, timeout=300)
    print('code side: seed %d on the current tree: LifeTrace %s' % (info['seed'], 'accepts' if r['accepted'] else 'REJECTS at line %s' % r['prefix']))
    c.rmtree(d)
    return not r['accepted']


def _disk(info, path):
    from . import p_disk, ldbref
    prop = info.get('prop'); w = info.get('workload')
    if not prop or not w or prop not in p_disk.CFG: return None
    lib = c.build_lib(); exe = c.build_driver('crash', lib); ldbref.build()
    cfg = p_disk.write_cfg(prop, p_disk.CFG[prop])
    renv = w.get('env') or None
    threaded = bool(renv) and 'CRASH_REOPEN' not in renv

    def validate(journal, label):
        plan = p_disk.Plan('quick', prop)
        if renv and 'CRASH_HEAVY' in renv:
            plan.point_every = 12; plan.only_classes = ['max', 'min']; plan.nested_every = 0; plan.model_images = False
        st = {}
        lines, sim = p_disk.explore(exe, journal, w['bits'], plan, w['seed'], st)
        d = c.scratch('rp'); tp = os.path.join(d, 'trace.ndjson')
        with open(tp, 'w') as f:
            for ln in lines: f.write(json.dumps(ln, separators=(',', ':')) + '\n')
        r = c.trace_validate('DiskTrace', cfg, tp, timeout=1500, heap='6g', header_lines=1)
        print('code side: %s: DiskTrace (%s) %s' % (label, cfg, 'accepts' if r['accepted'] else 'REJECTS: %s at line %s' % (r['violated'], r['prefix'])))
        c.rmtree(d)
        return not r['accepted']
    # A: the workload recorded again on the current tree (its I/O protocol and its recovery)
    d, j, p = p_disk.record(exe, w['seed'], w['bits'], w['nb'], w['endmode'], env=renv)
    a = None
    if p.returncode == 0:
        a = validate(j, 'workload recorded again on the current tree')
    else:
        print('code side: the workload does not complete on the current tree (exit %s)' % p.returncode); a = True
    c.rmtree(d)
    # B: the images of the stored journal recovered by the current tree (informative when the journal came from other code)
    b = None
    if os.path.exists(os.path.join(path, 'journal')) and not str(info.get('violated') or '').startswith('Model'):
        b = validate(os.path.join(path, 'journal'), 'stored journal, images recovered by the current tree')
    return bool(a) or (threaded and bool(b))


def _iter(info, path):
    vec = os.path.join(path, 'vectors.txt')
    if not os.path.exists(vec): return None
    lib = c.build_lib(); exe = c.build_driver('iter', lib, shim=True)
    d = c.scratch('itr'); res = os.path.join(d, 'res.txt')
    p = c.sh([exe, vec, res, os.path.join(d, 'db')], timeout=600)
    if p.returncode != 0:
        print('code side: the real iterators abort on the stored vectors (exit %s)' % p.returncode); c.rmtree(d); return True
    fails = [l for l in open(res).read().split('\n') if l.startswith('F ')]
    print('code side: stored vectors on the current tree: %d disagree with Iter.tla%s' % (len(fails), (' e.g. ' + fails[0]) if fails else ''))
    c.rmtree(d)
    return bool(fails)


def run(path):
    path = os.path.abspath(path)
    jp = os.path.join(path, 'replay.json')
    if not os.path.exists(jp):
        print('no replay.json in %s' % path); return 2
    info = json.load(open(jp))
    prop = info.get('prop') or os.path.basename(path).split('_')[0]
    info.setdefault('prop', prop)
    kind = info.get('kind')
    print('replay of %s: kind=%s property=%s' % (path, kind, prop))
    spec = _spec_side(path)
    code = None
    try:
        if kind == 'script' and os.path.exists(os.path.join(path, 'script.txt')): code = _script(info, path)
        elif kind == 'seq': code = _seq(info, path)
        elif kind == 'conc' and prop in ('C04', 'C08', 'C09'): code = _conc(info, path)
        elif kind == 'life' and 'steps' in info: code = _life(info, path)
        elif kind == 'disk': code = _disk(info, path)
        elif kind == 'iter': code = _iter(info, path)
    except c.Broken as b:
        print('code side: could not be re-run: %s' % b)
    if code is None:
        print('code side: no single repeatable execution is recorded for this kind; re-run the check itself: VERIF_SEED=%s ./check %s quick' % (os.environ.get('VERIF_SEED', '1'), prop))
    still = code if code is not None else bool(spec)
    if still:
        print('VIOLATION property=%s replay=%s' % (prop, path))
        return 1
    print('not reproduced on the current tree')
    return 0
