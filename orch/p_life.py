"""C20: lifecycle operations (two cooperating processes) validated by LifeTrace.tla; lock protocol model-checked (Life.tla)."""
import json, os, shutil, time
from . import common as c
from . import seqrun as sr
from .common import Broken, Outcome

LIFE = {'Reset', 'open', 'close', 'put', 'scan', 'backup', 'backup_scan', 'copy', 'copy_scan', 'ls_before', 'open_wrongcmp', 'ls_after', 'destroy', 'ls_destroyed', 'backup_over', 'copy_over', 'backup_self'}


def run_life(exe, seed, steps):
    d = c.scratch('life'); tr = os.path.join(d, 'trace.ndjson')
    p = c.sh([exe, str(seed), str(steps), tr, os.path.join(d, 'base')], timeout=400)
    return d, tr, p


def run_c20(tier, seed):
    prop = 'C20'
    t0 = time.time(); out = Outcome(prop); quick = tier == 'quick'
    lib = c.build_lib(); exe = c.build_driver('life', lib)
    runs = [(seed * 1000 + i, 160 if quick else 400) for i in range(10 if quick else 200)]
    st = dict(executions=0, events=0, states=0, kinds={})
    sample = None

    def one(r):
        d, tr, p = run_life(exe, r[0], r[1])
        if p.returncode != 0 or getattr(p, 'timed_out', False):
            return r, d, None, p
        evs = [e for e in sr.load_events(tr) if e['e'] in LIFE]
        path = os.path.join(d, 'life.ndjson'); sr.write_trace(path, evs)
        res = c.trace_validate('LifeTrace', 'LifeTrace.cfg', path, timeout=300)
        return r, d, (evs, res, path), p
    for r, d, val, p in c.pmap(one, runs, 8):
        if out.full():
            c.rmtree(d); continue
        if val is None:
            d2, tr2, p2 = run_life(exe, r[0], r[1]); c.rmtree(d2)
            if p2.returncode == 0: raise Broken('life driver failure not reproducible: %s' % (p.stderr or '')[-300:])
            rd = c.replay_dir(prop, 'life'); json.dump(dict(kind='life', seed=r[0], steps=r[1], why='exit %s' % p.returncode), open(os.path.join(rd, 'replay.json'), 'w'))
            out.violation('lifecycle driver aborted or hung (exit %s) seed=%d' % (p.returncode, r[0]), rd, dict(kind='driver_exit'))
            c.rmtree(d); continue
        evs, res, path = val
        st['executions'] += 1; st['events'] += len(evs); st['states'] += res['res'].distinct
        for e in evs: st['kinds'][e['e']] = st['kinds'].get(e['e'], 0) + 1
        if sample is None: sample = [{k: v for k, v in e.items() if k not in ('n', 't')} for e in evs[5:20]]
        if not res['accepted']:
            idx = res['prefix'] or 0
            bad = evs[idx] if idx < len(evs) else None
            # reproduce
            d2, tr2, p2 = run_life(exe, r[0], r[1])
            evs2 = [e for e in sr.load_events(tr2) if e['e'] in LIFE]
            path2 = os.path.join(d2, 'life.ndjson'); sr.write_trace(path2, evs2)
            res2 = c.trace_validate('LifeTrace', 'LifeTrace.cfg', path2, timeout=300)
            c.rmtree(d2)
            if res2['accepted']: raise Broken('LifeTrace rejection did not repeat seed=%d' % r[0])
            rd = c.replay_dir(prop, 'life'); shutil.copy(path, os.path.join(rd, 'life_trace.ndjson'))
            json.dump(dict(kind='life', seed=r[0], steps=r[1], line=idx, event=bad, context=evs[max(0, idx - 8):idx + 1]), open(os.path.join(rd, 'replay.json'), 'w'), indent=1)
            out.violation('LifeTrace cannot explain event #%d %s (seed=%d)' % (idx, json.dumps(bad)[:240], r[0]), rd, dict(kind='life', event=(bad or {}).get('e')))
        c.rmtree(d)
    # backups taken while other threads write, flush and compact (opened and scanned in another process), decided by ConcTrace
    from . import p_conc
    cst = {}
    if not out.full():
        p_conc.conc_layer(prop, 'ConcTrace_C08.cfg', tier, seed, out, cst)
        cst.pop('sample', None)
    mc = {}
    r = c.tlc('Life', 'Life.cfg', workers=2, timeout=120, deadlock=False)
    if r.error and not r.violated: raise Broken('Life model check failed: %s' % r.error)
    mc = dict(states=r.distinct, transitions=r.generated, invariants=['AtMostOneHandle', 'HolderHasLock', 'ReleasedWhenFree'])
    if r.violated:
        rd = c.replay_dir(prop, 'mc'); open(os.path.join(rd, 'tlc.out'), 'w').write(r.out)
        out.violation('Life.tla: %s violated' % r.violated, rd, dict(kind='mc'))
    rc = out.finish()
    cov = dict(states=st['states'] + mc.get('states', 0), transitions=st['states'] + mc.get('transitions', 0), traces_validated_against_impl=st['executions'],
               samples=[sample or []], life_trace=st, life_mc=mc, concurrent_backups=cst, exhaustive=False)
    c.write_evidence(prop, tier, seed, 'model_checking', cov, time.time() - t0, violations=len(out.violations),
                     assumptions=['two cooperating processes (fcntl locks are per process); the lock model in Life.tla includes the POSIX rule that closing any descriptor drops the process\'s locks',
                                  'comparator-mismatch non-modification is checked on the directory listing (info-log rotation and LOCK are not modification) and by later scans'])
    return rc


CHECKS = {'C20': run_c20}
