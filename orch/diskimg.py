"""I/O journal (harness/rt/io_shim.c) -> abstract file-system history -> crash images.

Crash model (C02): each file keeps a prefix of its written bytes at least as long as at its last fsync;
directory operations persist in issue order, at least up to the last fsync of any file or directory."""
import os, re, sys, json, random
sys.path.insert(0, os.path.join(os.path.dirname(os.path.dirname(os.path.abspath(__file__))), 'harness', 'proj'))
import fmt

O_WRONLY, O_RDWR, O_CREAT, O_EXCL, O_TRUNC, O_APPEND = 1, 2, 0o100, 0o200, 0o1000, 0o2000


class Op:
    __slots__ = ('kind', 'n', 'tid', 'fd', 'flags', 'err', 'path', 'path2', 'off', 'length', 'data', 'text', 'ino', 'idx')

    def __init__(self, kind):
        self.kind = kind; self.n = 0; self.tid = 0; self.fd = -1; self.flags = 0; self.err = 0
        self.path = None; self.path2 = None; self.off = 0; self.length = 0; self.data = b''; self.text = None; self.ino = None; self.idx = 0


def parse_journal(path):
    ops = []
    with open(path, 'rb') as f:
        while True:
            ln = f.readline()
            if not ln:
                break
            if not ln.endswith(b'\n'):
                break  # torn last line (killed process)
            k = ln[:1]
            s = ln[:-1].decode('latin1')
            parts = s.split(' ')
            try:
                if k == b'#':
                    o = Op('mark'); o.n = int(parts[1]); o.tid = int(parts[2]); o.text = ' '.join(parts[3:])
                elif k == b'O':
                    o = Op('open'); o.n = int(parts[1]); o.tid = int(parts[2]); o.fd = int(parts[3]); o.flags = int(parts[4]); o.err = int(parts[5]); o.path = ' '.join(parts[6:])
                elif k == b'W':
                    o = Op('write'); o.n = int(parts[1]); o.tid = int(parts[2]); o.fd = int(parts[3]); o.off = int(parts[4]); o.length = int(parts[5]); o.err = int(parts[6])
                    o.data = f.read(o.length)
                    if len(o.data) != o.length or f.read(1) != b'\n':
                        break
                elif k == b'S':
                    o = Op('sync'); o.n = int(parts[1]); o.tid = int(parts[2]); o.fd = int(parts[3]); o.err = int(parts[4])
                elif k == b'C':
                    o = Op('close'); o.n = int(parts[1]); o.tid = int(parts[2]); o.fd = int(parts[3]); o.err = int(parts[4])
                elif k == b'T':
                    o = Op('trunc'); o.n = int(parts[1]); o.tid = int(parts[2]); o.fd = int(parts[3]); o.length = int(parts[4]); o.err = int(parts[5])
                elif k in (b'R', b'L'):
                    o = Op('rename' if k == b'R' else 'link'); o.n = int(parts[1]); o.tid = int(parts[2]); o.err = int(parts[3])
                    a, b = ' '.join(parts[4:]).split('\t'); o.path = a; o.path2 = b
                elif k in (b'U', b'M', b'D'):
                    o = Op({b'U': 'unlink', b'M': 'mkdir', b'D': 'rmdir'}[k]); o.n = int(parts[1]); o.tid = int(parts[2]); o.err = int(parts[3]); o.path = ' '.join(parts[4:])
                else:
                    continue
            except (ValueError, IndexError):
                break
            o.idx = len(ops)
            ops.append(o)
    return ops


def base(p):
    return p[1:] if p.startswith('/') else p


class Inode:
    def __init__(self, name, data=b'', durable=0):
        self.first_name = name; self.data = bytearray(data); self.wlen = len(data); self.slen = durable


class Image:
    """A crash image: namespace (name -> ino) + per-inode length."""
    def __init__(self, ns, lens, cls, at, detail=''):
        self.ns = dict(ns); self.lens = dict(lens); self.cls = cls; self.at = at; self.detail = detail


class FsSim:
    """Replays a journal; after each operation exposes the state from which crash images are drawn."""
    def __init__(self, base_files=None):
        self.inodes = []         # Inode
        self.ns = {}             # name -> ino (current)
        self.ns_synced = {}      # namespace as of the last fsync
        self.pending = []        # directory operations since the last fsync: (kind, a, b, ino)
        self.fds = {}            # fd -> ino or 'DIR'
        self.ever = {}           # every name ever bound: name -> [ino,...]
        if base_files:
            for name, data in base_files.items():
                i = self._new(name, data, len(data))
                self.ns[name] = i; self.ns_synced[name] = i

    def _new(self, name, data=b'', durable=0):
        self.inodes.append(Inode(name, data, durable))
        i = len(self.inodes) - 1
        self.ever.setdefault(name, []).append(i)
        return i

    def _dirop(self, kind, a, b=None, ino=None):
        self.pending.append((kind, a, b, ino))
        apply_dirop(self.ns, (kind, a, b, ino))

    def apply(self, o):
        """Apply op; returns True if it changed durable-relevant state (a crash point worth cutting at)."""
        if o.kind == 'mark':
            return False
        if o.err != 0 and o.kind != 'write':
            if o.kind == 'close': self.fds.pop(o.fd, None)
            return False
        k = o.kind
        if k == 'open':
            name = base(o.path)
            if name == '':
                self.fds[o.fd] = 'DIR'; return False
            if '/' in name:
                self.fds[o.fd] = None; return False
            wr = o.flags & (O_WRONLY | O_RDWR)
            if name in self.ns:
                if wr and (o.flags & O_TRUNC):
                    i = self._new(name); self._dirop('create', name, None, i); self.fds[o.fd] = i; o.ino = i; return True
                self.fds[o.fd] = self.ns[name] if wr else None
                return False
            if o.flags & O_CREAT:
                i = self._new(name); self._dirop('create', name, None, i); self.fds[o.fd] = i; o.ino = i; return True
            self.fds[o.fd] = None
            return False
        if k == 'write':
            i = self.fds.get(o.fd)
            if not isinstance(i, int) or o.length <= 0: return False
            ino = self.inodes[i]
            if o.off > ino.wlen:
                ino.data += b'\0' * (o.off - ino.wlen)
            ino.data[o.off:o.off + o.length] = o.data
            ino.wlen = max(ino.wlen, o.off + o.length)
            o.ino = i
            return True
        if k == 'sync':
            i = self.fds.get(o.fd)
            if i is None and o.fd not in self.fds: return False
            if isinstance(i, int):
                self.inodes[i].slen = self.inodes[i].wlen
                o.ino = i
            self.ns_synced = dict(self.ns); self.pending = []
            return True
        if k == 'close':
            self.fds.pop(o.fd, None); return False
        if k == 'trunc':
            i = self.fds.get(o.fd)
            if isinstance(i, int):
                ino = self.inodes[i]; del ino.data[o.length:]; ino.wlen = min(ino.wlen, o.length); ino.slen = min(ino.slen, o.length)
            return True
        if k == 'rename':
            a, b = base(o.path), base(o.path2)
            if a in self.ns:
                self._dirop('rename', a, b); return True
            return False
        if k == 'unlink':
            a = base(o.path)
            if a in self.ns:
                self._dirop('unlink', a); return True
            return False
        if k == 'link':
            a, b = base(o.path), base(o.path2)
            if a in self.ns and '/' not in b:
                self._dirop('link', a, b); return True
            return False
        return False

    # ---- images of the current state ----
    def wlens(self): return {i: ino.wlen for i, ino in enumerate(self.inodes)}
    def slens(self): return {i: ino.slen for i, ino in enumerate(self.inodes)}

    def img_max(self, at): return Image(self.ns, self.wlens(), 'max', at)
    def img_min(self, at): return Image(self.ns_synced, self.slens(), 'min', at)
    def img_dirahead(self, at): return Image(self.ns, self.slens(), 'dirahead', at)
    def img_dataahead(self, at): return Image(self.ns_synced, self.wlens(), 'dataahead', at)

    def img_gap(self, at, bump=8):
        """The maximal image with the newest log renumbered upwards: file numbers handed out to compaction outputs
        that never reached the MANIFEST leave exactly such a gap between the recorded next-file number and the
        newest log. Recovery must cope with any gap."""
        img = self.img_max(at)
        logs = sorted(n for n in img.ns if re.match(r'^\d+\.log$', n))
        if not logs:
            return None
        newest = logs[-1]
        num = int(newest.split('.')[0]) + bump
        tgt = '%06d.log' % num
        if any(re.match(r'^0*%d\.' % num, n) for n in img.ns):
            return None
        img.ns[tgt] = img.ns.pop(newest)
        img.cls = 'gap'; img.detail = '%s->%s' % (newest, tgt)
        return img

    def img_torn(self, at, o, cut):
        lens = self.wlens()
        lens[o.ino] = o.off + cut
        if lens[o.ino] < self.inodes[o.ino].slen: lens[o.ino] = self.inodes[o.ino].slen
        return Image(self.ns, lens, 'torn', at, 'cut=%d/%d' % (cut, o.length))

    def img_random(self, at, rng):
        d = rng.randint(0, len(self.pending))
        ns = dict(self.ns_synced)
        for op in self.pending[:d]: apply_dirop(ns, op)
        lens = {}
        for i, ino in enumerate(self.inodes):
            if ino.wlen > ino.slen:
                r = rng.random()
                lens[i] = ino.slen if r < 0.3 else ino.wlen if r < 0.6 else rng.randint(ino.slen, ino.wlen)
            else:
                lens[i] = ino.wlen
        return Image(ns, lens, 'random', at, 'd=%d/%d' % (d, len(self.pending)))

    def materialise(self, img, directory):
        os.makedirs(directory, exist_ok=True)
        for name, i in img.ns.items():
            if name == 'LOCK' or name.startswith('LOG'):
                continue
            ln = img.lens.get(i, 0)
            with open(os.path.join(directory, name), 'wb') as f:
                f.write(bytes(self.inodes[i].data[:ln]))


def apply_dirop(ns, op):
    kind, a, b, ino = op
    if kind == 'create': ns[a] = ino
    elif kind == 'rename':
        if a in ns: ns[b] = ns.pop(a)
    elif kind == 'unlink': ns.pop(a, None)
    elif kind == 'link':
        if a in ns: ns[b] = ns[a]


# ---------------------------------------------------------------------------------------------
# Projection of inode bytes into the abstract units the Disk specification consumes
# ---------------------------------------------------------------------------------------------
def classify(name):
    m = re.match(r'^(\d+)\.(log|ldb|sst|dbtmp)$', name)
    if m:
        return {'log': 'log', 'ldb': 'table', 'sst': 'table', 'dbtmp': 'temp'}[m.group(2)], int(m.group(1))
    m = re.match(r'^MANIFEST-(\d+)$', name)
    if m: return 'manifest', int(m.group(1))
    if name == 'CURRENT': return 'current', 0
    if name == 'LOCK': return 'lock', 0
    if name.startswith('LOG'): return 'info', 0
    return 'other', 0


def marker_of_key(k):
    if len(k) == 6 and k[:1] == b'm':
        try: return int(k[1:6])
        except ValueError: return None
    return None


def project_inodes(sim, table_markers):
    """Per inode: kind, num, size, and units:
       log      -> [[end_offset, [batch ids]], ...]   (one unit per complete logical record)
       manifest -> [[end_offset, edit], ...]
       table    -> batches (markers contained)
       temp/current -> man (manifest number named)"""
    metas = []
    for i, ino in enumerate(sim.inodes):
        kind, num = classify(ino.first_name)
        data = bytes(ino.data)
        d = dict(kind=kind, num=num, size=len(data), units=[], man=0, batches=[])
        if kind == 'log':
            for pl, end, first in fmt.logical_records(data):
                try:
                    b = fmt.decode_batch(pl)
                    ms = sorted(set(m for m in (marker_of_key(k) for (_, k, _) in b['ops']) if m is not None))
                except ValueError:
                    ms = []
                d['units'].append([end, ms])
        elif kind == 'manifest':
            for pl, end, first in fmt.logical_records(data):
                try:
                    e = fmt.decode_edit(pl)
                    d['units'].append([end, dict(log=-1 if e['log'] is None else e['log'], add=[a[1] for a in e['added']], dele=[x[1] for x in e['deleted']])])
                except ValueError:
                    d['units'].append([end, dict(log=-1, add=[], dele=[], bad=1)])
        elif kind == 'table':
            d['batches'] = sorted(table_markers.get(i, []))
        elif kind in ('temp', 'current'):
            m = re.match(rb'^MANIFEST-(\d+)\n$', data)
            d['man'] = int(m.group(1)) if m else -1
            d['kind'] = 'current'
        metas.append(d)
    return metas
