"""Structure layer (LsmTrace.tla over hook events + decoded tables) and design-level model checking of Lsm.tla.
Serves C01, C06 (as extra layers of the API checks), C13, C14."""
import json, os, shutil, time
from . import common as c
from . import seqrun as sr
from . import lsmenrich as le
from .common import Broken, log, Outcome

STRUCT_PLANS = {
    # prop: quick [(profile, runs, steps)], thorough
    'C01': ([('deep', 3, 400), ('mixed', 2, 450), ('bigval', 2, 200), ('auto', 2, 250), ('autobig', 1, 120), ('seek', 1, 800)],
            [('deep', 50, 900), ('mixed', 40, 1000), ('bigval', 30, 400), ('auto', 30, 400), ('autobig', 20, 300), ('seek', 20, 2500)]),
    'C06': ([('snap', 4, 400), ('deep', 2, 400), ('bigval', 2, 200), ('autobig', 1, 120)],
            [('snap', 60, 900), ('deep', 30, 900), ('bigval', 30, 400), ('autobig', 20, 300)]),
    'C13': ([('deep', 3, 400), ('iter', 3, 400), ('bigval', 2, 200), ('auto', 2, 250), ('autobig', 1, 120)],
            [('deep', 50, 900), ('iter', 50, 900), ('bigval', 30, 400), ('auto', 30, 400), ('autobig', 20, 300)]),
    'C14': ([('deep', 3, 400), ('mixed', 2, 450), ('bigval', 2, 200), ('auto', 2, 250), ('autobig', 1, 120), ('seek', 1, 800)],
            [('deep', 50, 900), ('mixed', 40, 1000), ('bigval', 30, 400), ('auto', 30, 400), ('autobig', 20, 300), ('seek', 20, 2500)]),
}


def _validate_struct(prop, evs):
    d = c.scratch('ltv'); path = os.path.join(d, 't.ndjson')
    sr.write_trace(path, evs)
    r = c.trace_validate('LsmTrace', 'LsmTrace_%s.cfg' % prop, path, timeout=1200, heap='4g')
    return r, path


def struct_layer(prop, tier, seed, out, mc):
    quick, thorough = STRUCT_PLANS[prop]
    plan = quick if tier == 'quick' else thorough
    lib = c.build_lib(); exe = c.build_driver('seq', lib)
    from . import ldbref
    ldbref.build()
    execs = []
    for pi, (profile, runs, steps) in enumerate(plan):
        for i in range(runs):
            execs.append(sr.Exec(seed * 100000 + 50000 + pi * 1000 + i, steps, profile))
    sr.run_campaign(exe, execs)
    st = dict(states=0, transitions=0, traces=0, tables=0, entries=0, max_level=0, layouts=0, events=0)

    def one(ex):
        if ex.rc != 0:
            return ex, None, 'driver'
        evs = sr.load_events(ex.trace)
        try:
            enr, stats = le.enrich(evs, os.path.join(ex.dir, 'db.keep'))
        except le.ProjectionError as pe:
            return ex, str(pe), 'projection'
        r, path = _validate_struct(prop, enr)
        return ex, (r, path, enr, stats), 'ok'
    results = c.pmap(one, execs, 8)
    sample = None
    for ex, res, kind in results:
        if out.full(): break
        if kind == 'driver':
            ex2 = sr.Exec(ex.seed, ex.steps, ex.profile); sr.run_exec(exe, ex2)
            if ex2.rc == 0:
                raise Broken('driver failure not reproducible seed=%d' % ex.seed)
            d = c.replay_dir(prop, 'driver')
            json.dump(dict(kind='seq', prop=prop, layer='LsmTrace', exec=ex.desc(), why='driver exit %s' % ex.rc), open(os.path.join(d, 'replay.json'), 'w'))
            out.violation('execution did not complete (exit %s) seed=%d profile=%s' % (ex.rc, ex.seed, ex.profile), d, dict(kind='driver_exit'))
            continue
        if kind == 'projection':
            if prop not in ('C14',):
                raise Broken('projection failed: %s' % res)
            d = c.replay_dir(prop, 'proj')
            json.dump(dict(kind='seq', prop=prop, layer='projection', exec=ex.desc(), why=res), open(os.path.join(d, 'replay.json'), 'w'))
            out.violation('table bytes not explained by the reference decoder: %s' % res, d, dict(kind='projection'))
            continue
        r, path, enr, stats = res
        st['states'] += r['res'].distinct; st['transitions'] += r['res'].generated; st['traces'] += 1
        st['tables'] += stats['tables']; st['entries'] += stats['entries']; st['layouts'] += stats['layouts']
        st['max_level'] = max(st['max_level'], stats['max_level']); st['events'] += len(enr)
        if sample is None and len(enr) > 60:
            sample = [{k: v for k, v in e.items() if k not in ('n',)} for e in enr[40:52]]
        if r['accepted']:
            continue
        _report(prop, exe, ex, r, enr, path, out)
    mc['LsmTrace'] = st
    if sample: mc['LsmTrace']['sample'] = sample
    for ex in execs:
        if ex.dir: c.rmtree(ex.dir)


# which property a plain rejection (no enabled action) at an event of this kind speaks about; None = structural binding
REJECT_CLASS = {'FlushPick': 'level', 'CompPick': 'ss', 'Obsolete': 'obsolete', 'ls': 'ls', 'sstables': 'report', 'RecoverManifest': 'report'}


def _report(prop, exe, ex, r, enr, path, out):
    idx = r['prefix'] if r['prefix'] is not None else 0
    bad = enr[idx] if idx < len(enr) else None
    # reproduce with a fresh run of the same seed
    ex2 = sr.Exec(ex.seed, ex.steps, ex.profile); sr.run_exec(exe, ex2)
    rep = False; r2 = None
    if ex2.rc == 0:
        try:
            enr2, _ = le.enrich(sr.load_events(ex2.trace), os.path.join(ex2.dir, 'db.keep'))
            r2, path2 = _validate_struct(prop, enr2)
            rep = not r2['accepted']
            if rep:
                idx2 = r2['prefix'] if r2['prefix'] is not None else 0
                bad2 = enr2[idx2] if idx2 < len(enr2) else None
                # background timing may move the event; the same kind of failure must repeat
                rep = (r2['violated'] == r['violated']) and ((bad2 or {}).get('e') == (bad or {}).get('e'))
        except le.ProjectionError:
            rep = True
    else:
        rep = True
    if ex2.dir: c.rmtree(ex2.dir)
    if not rep:
        # try twice more: a race-dependent violation needs the schedule to recur
        raise Broken('LsmTrace rejection did not repeat (seed %d profile %s, %s at %s)' % (ex.seed, ex.profile, r['violated'], (bad or {}).get('e')))
    d = c.replay_dir(prop, 'lsm')
    shutil.copy(path, os.path.join(d, 'lsm_trace.ndjson'))
    slim = None if bad is None else {k: (v if k != 'ents' else '%d entries' % len(v)) for k, v in bad.items()}
    json.dump(dict(kind='seq', prop=prop, layer='LsmTrace', exec=ex.desc(), violated=r['violated'], line=idx, event=slim,
                   tlc_tail=r['res'].out[-3000:]), open(os.path.join(d, 'replay.json'), 'w'), indent=1)
    open(os.path.join(d, 'README'), 'w').write('Reproduce: cd /verif && ./check replay %s\nLsmTrace (%s): %s at trace line %d: %s\n' % (
        d, prop, r['violated'] or 'no action of the specification explains the event', idx + 1, json.dumps(slim)[:800]))
    what = 'LsmTrace %s at event #%d %s (seed=%d profile=%s)' % (r['violated'] or 'cannot explain', idx, json.dumps(slim)[:300], ex.seed, ex.profile)
    out.violation(what, d, dict(kind='lsm', violated=r['violated'], event=(bad or {}).get('e')))


def lsm_mc_layer(cfgname, label):
    def layer(prop, tier, seed, out, mc):
        cfg = cfgname if tier == 'quick' else (cfgname if cfgname != 'Lsm_quick' else 'Lsm_mid')
        r = c.tlc('Lsm', cfg + '.cfg', workers=c.NCPU, timeout=1500 if tier == 'thorough' else 300, heap='24g' if tier == 'thorough' else '8g', deadlock=False)
        if r.error and not r.violated:
            raise Broken('Lsm model checking failed: %s' % r.error)
        mc[label] = dict(states=r.distinct, transitions=r.generated, depth=r.depth, cfg=cfg, wall_s=round(r.wall, 1), exhaustive=not r.timed_out)
        if r.violated:
            d = c.replay_dir(prop, 'mc')
            open(os.path.join(d, 'tlc.out'), 'w').write(r.out)
            json.dump(dict(kind='mc', prop=prop, module='Lsm', cfg=cfg + '.cfg', violated=r.violated), open(os.path.join(d, 'replay.json'), 'w'))
            out.violation('Lsm.tla: %s violated in the design model (%s)' % (r.violated, cfg), d, dict(kind='mc', violated=r.violated))
    return layer


def layers_for(prop):
    if prop == 'C01': return [struct_layer, gen_layer, lsm_mc_layer('Lsm_quick', 'Lsm_MC')]
    if prop == 'C06': return [struct_layer, gen_layer, lsm_mc_layer('Lsm_quick', 'Lsm_MC')]
    return []


def run_struct_prop(prop, tier, seed, mc_cfg):
    t0 = time.time()
    out = Outcome(prop)
    mc = {}
    struct_layer(prop, tier, seed, out, mc)
    gen_layer(prop, tier, seed, out, mc)
    lsm_mc_layer(mc_cfg, 'Lsm_MC')(prop, tier, seed, out, mc)
    if prop == 'C13' and not out.full():
        from . import p_disk
        p_disk.fault_files_layer(prop, tier, seed, out, mc)
    st = mc.get('LsmTrace', {})
    cov = dict(states=st.get('states', 0) + mc.get('Lsm_MC', {}).get('states', 0),
               transitions=st.get('transitions', 0) + mc.get('Lsm_MC', {}).get('transitions', 0),
               traces_validated_against_impl=st.get('traces', 0), samples=[st.pop('sample', [])] if st else [[]], layers=mc, exhaustive=False)
    rc = out.finish()
    c.write_evidence(prop, tier, seed, 'model_checking', cov, time.time() - t0, violations=len(out.violations),
                     assumptions=['hook events are emitted under db->mutex after the state change (see DESIGN.md appendix D)',
                                  'table contents come from genuine LevelDB reading hard-linked copies of every finished table',
                                  'Lsm.tla model checking is exhaustive only within the stated small bounds'])
    return rc


CHECKS = {
    'C13': lambda tier, seed: run_struct_prop('C13', tier, seed, 'Lsm_files'),
    'C14': lambda tier, seed: run_struct_prop('C14', tier, seed, 'Lsm_quick'),
}


# =============================================================================================
# GEN: behaviours generated by TLC from LsmGen.tla, replayed into the real library
# =============================================================================================
GEN_KEYMAP = lambda k: -1 if k < 0 else min(15, 3 * k)
# option variants for generated behaviours (none of them changes what LsmGen predicts): bloom filter, Snappy, mmap, paranoid checks,
# tiny block cache, minimal table cache
GEN_OPTBITS = [0, 1 << 9, (1 << 9) | (1 << 8), 1 | (1 << 10), (1 << 9) | (1 << 12), (1 << 14) | (1 << 8), (1 << 9) | 1 | (2 << 12)]


def gen_scripts(seed, per_worker, workers, max_ops, pick_per_tag, timeout, repair=False, require_tag=None, big=False, family=False):
    d = c.scratch('gen')
    outdir = os.path.join(d, 'out'); os.makedirs(outdir)
    cfg = open(os.path.join(c.SPEC, 'LsmGenA.cfg' if family == 'A' else 'LsmGenC.cfg' if family == 'C' else 'LsmGenF.cfg' if family else 'LsmGen.cfg')).read()
    cfg = cfg.replace('OutDir = "/tmp/lsmgen_out"', 'OutDir = "%s"' % outdir).replace('MaxOps = 14', 'MaxOps = %d' % max_ops)
    if family: max_ops = 25
    if big:
        cfg = cfg.replace('WithBig = FALSE', 'WithBig = TRUE')
    if repair:
        cfg = cfg.replace('AllowRepair = FALSE', 'AllowRepair = TRUE').replace('INVARIANT ReadLatest\n', 'INVARIANT ReadLatestOrD1\nINVARIANT IterLatest\n').replace('INVARIANT Recency\n', '')
    cfgp = os.path.join(d, 'gen.cfg'); open(cfgp, 'w').write(cfg)
    r = c.tlc('LsmGen', cfgp, workers=workers, timeout=timeout, simulate=per_worker, depth=max_ops + 1, heap='6g', deadlock=False, seed=seed)
    if r.violated:
        return None, r, d
    if r.error and 'Simulation' not in r.out and not os.listdir(outdir):
        raise Broken('LsmGen simulation failed: %s' % r.error)
    byfile = []
    seen = set()
    for fn in sorted(os.listdir(outdir)):
        try:
            rec = json.loads(open(os.path.join(outdir, fn)).readline())
        except Exception:
            continue
        key = json.dumps([[o['op'], o['a'], o['b'], o['c']] for o in rec['ops']])
        if key in seen: continue
        if require_tag and require_tag not in rec['tags']: continue
        seen.add(key)
        byfile.append(rec)
    # choose scripts so that every tag is represented, rare tags first
    from collections import Counter
    cnt = Counter(t for rec in byfile for t in rec['tags'])
    chosen = []; have = Counter()
    for tag, _ in sorted(cnt.items(), key=lambda kv: kv[1]):
        for rec in byfile:
            if have[tag] >= pick_per_tag: break
            if tag in rec['tags'] and not rec.get('_c'):
                rec['_c'] = True; chosen.append(rec)
                for t in rec['tags']: have[t] += 1
    stats = dict(generated=len(byfile), chosen=len(chosen), tag_counts=dict(cnt), chosen_tags=dict(have), sim_states=r.generated)
    return chosen, stats, d


# Fixed scenarios: layouts that the random generations reach only now and then (each one is the shape of a defect that was seeded
# by an independent agent or found with TLC); they are replayed in every run next to the generated behaviours.
SCENARIOS = [
    dict(tags=['scn_boundaryx'], big=True, text="""put 0
put 7
flush
getall
put 1
put 13
flush
getall
put 2 1150000
put 6
put 10
snap 1
put 10 1150000
flush
getall
compact 0 -1 -1
getall
snap 2
compact 1 1 2
getall
scan
rel 1
getall
compact 1 -1 -1
getall
scan
reopen
getall
"""),
    dict(tags=['scn_l0chain'], big=False, text="""put 0
put 2
reopen
put 1
put 4
reopen
put 3
put 6
reopen
getall
compact 0 3 6
getall
scan
reopen
getall
"""),
    dict(tags=['scn_l0chain_up'], big=False, text="""put 4
put 6
reopen
put 2
put 5
reopen
put 0
put 3
reopen
getall
compact 0 0 1
getall
scan
reopen
getall
"""),
    dict(tags=['scn_auto_trivial'], big=False, text="""put 0
reopen
put 4
reopen
put 8
reopen
put 12
reopen
getall
compactall
getall
scan
put 1
flush
put 5
flush
compactall
getall
reopen
getall
"""),
    dict(tags=['scn_flush_in_compaction'], big=False, text="""put 0
put 2
put 4
put 6
put 8
flush
getall
put 1
put 3
put 5
put 7
put 9
flush
getall
racecompact 1 4
getall
scan
reopen
getall
"""),
    dict(tags=['scn_seek_compaction'], big=False, text="""put 0
put 1
put 2
put 3
put 4
put 5
put 6
put 7
put 8
put 9
flush
put 0
put 9
flush
put 0
put 9
flush
getall
getall
getall
getall
getall
getall
getall
getall
getall
getall
getall
getall
quiesce
getall
scan
reopen
getall
"""),
    # found by LsmGen family A (tag auto0first): the automatic level-0 compaction picks ONE file that overlaps level 1 without any
    # other level-0 file joining - it must be merged, never moved
    dict(tags=['scn_auto_single_overlap'], big=False, text="""put 9
put 3
put 12
flush
getall
put 12
put 6
flush
getall
put 0
del 3
flush
getall
put 6
put 6
flush
getall
put 6
flush
getall
put 6
del 6
flush
getall
put 3
flush
getall
compactall
getall
getall
scan
reopen
getall
"""),
    dict(tags=['scn_deep_reopen2'], big=False, text="""put 0
put 9
flush
compact 0 -1 -1
compact 1 -1 -1
compact 2 -1 -1
compact 3 -1 -1
compact 4 -1 -1
compact 5 -1 -1
getall
put 9
flush
reopen
getall
reopen
getall
scan
"""),
]


def script_text(rec):
    if 'text' in rec:
        return rec['text']
    lines = []
    for o in rec['ops']:
        op = o['op']
        if op == 'put': lines.append('put %d%s' % (GEN_KEYMAP(o['a']), ' 1150000' if o['b'] == 1 else ''))
        elif op == 'del': lines.append('del %d' % GEN_KEYMAP(o['a']))
        elif op == 'flush': lines += ['flush', 'getall']
        elif op == 'reopen': lines += ['reopen', 'getall']
        elif op == 'compact': lines += ['compact %d %d %d' % (o['a'], GEN_KEYMAP(o['b']), GEN_KEYMAP(o['c'])), 'getall']
        elif op == 'repair': lines += ['repair %d' % o['a'], 'getall']
        elif op == 'snap': lines.append('snap %d' % (o['a'] or 1))
        elif op == 'rel': lines.append('rel 1')
    if 'auto0' in rec.get('tags', []):
        # after the automatic compaction (which may be a trivial move): a full manual compaction retires the moved files; the
        # directory must then hold exactly the live files (listing compared at the quiescent point)
        lines += ['compactall', 'getall']
    lines += ['getall', 'scan', 'reopen', 'getall']
    return '\n'.join(lines) + '\n'


def gen_layer(prop, tier, seed, out, mc):
    quick = tier == 'quick'
    chosen, stats, d = gen_scripts(seed, 150 if quick else 2500, 8, 14, 5 if quick else 60, 120 if quick else 900)
    if chosen is not None:
        # second generation: values above max_file_size, so that one user key is split over two files of a level
        chosen_b, stats_b, d_b = gen_scripts(seed + 1, 150 if quick else 2500, 8, 14, 4 if quick else 60, 120 if quick else 900, big=True)
        if chosen_b is None:
            chosen, stats = None, stats_b
        else:
            for rec in chosen_b: rec['big'] = True
            chosen = chosen + chosen_b
            stats['big'] = {k: v for k, v in stats_b.items() if k in ('generated', 'chosen', 'tag_counts')}
            # scripts are written into d; the big run's scratch is not needed any more
            c.rmtree(d_b)
    if chosen is not None:
        # third generation: the scenario family in which one user key is split over two files of a level and ranged
        # compactions are chunked, expanded and extended by boundary files
        chosen_f, stats_f, d_f = gen_scripts(seed + 2, 45 if quick else 1200, 8, 24, 4 if quick else 50, 200 if quick else 1500, family=True)
        if chosen_f is None:
            chosen, stats = None, stats_f
        else:
            for rec in chosen_f: rec['big'] = True
            chosen = chosen + chosen_f
            stats['family'] = {k: v for k, v in stats_f.items() if k in ('generated', 'chosen', 'tag_counts')}
            c.rmtree(d_f)
    if chosen is not None:
        # fourth generation: four level-0 files, so that the automatic level-0 compaction (compact pointer, level-0 closure,
        # trivial move of a single non-overlapping file) runs in the real engine
        chosen_a, stats_a, d_a = gen_scripts(seed + 3, 200 if quick else 2500, 8, 24, 3 if quick else 40, 400 if quick else 3000, family='A')
        if chosen_a is None:
            chosen, stats = None, stats_a
        else:
            chosen = chosen + chosen_a
            stats['auto'] = {k: v for k, v in stats_a.items() if k in ('generated', 'chosen', 'tag_counts')}
            c.rmtree(d_a)
    if chosen is not None:
        # fifth generation: chains of overlapping level-0 files and a ranged level-0 compaction (transitive closure of the inputs)
        chosen_c, stats_c, d_c = gen_scripts(seed + 4, 120 if quick else 2000, 8, 24, 3 if quick else 40, 300 if quick else 2400, family='C')
        if chosen_c is None:
            chosen, stats = None, stats_c
        else:
            chosen = chosen + chosen_c
            stats['chain'] = {k: v for k, v in stats_c.items() if k in ('generated', 'chosen', 'tag_counts')}
            c.rmtree(d_c)
    if chosen is None:
        r = stats
        rd = c.replay_dir(prop, 'gen')
        open(os.path.join(rd, 'tlc.out'), 'w').write(r.out)
        out.violation('LsmGen.tla: %s violated while generating behaviours' % r.violated, rd, dict(kind='mc', violated=r.violated))
        return
    chosen = chosen + [dict(sc) for sc in SCENARIOS]
    stats['scenarios'] = len(SCENARIOS)
    lib = c.build_lib(); exe = c.build_driver('seq', lib)
    from . import p_api
    jobs = []
    for i, rec in enumerate(chosen):
        sp = os.path.join(d, 's%d.txt' % i); open(sp, 'w').write(script_text(rec))
        ex = sr.Exec(seed * 1000 + i, 0, 'mixed', bits=((1 << 17) if rec.get('big') else 0) | GEN_OPTBITS[i % len(GEN_OPTBITS)]); ex.script = sp; ex.tags = rec['tags']
        jobs.append(ex)
    c.pmap(lambda ex: sr.run_exec(exe, ex, env={'VERIF_SCRIPT': ex.script}), jobs, c.NCPU)
    api = []; struct = []; owners = []
    keep = p_api.PLANS[prop][0] if prop in p_api.PLANS else p_api.PLANS['C01'][0]
    for ex in jobs:
        if ex.rc != 0:
            rd = c.replay_dir(prop, 'gen')
            shutil.copy(ex.script, os.path.join(rd, 'script.txt'))
            json.dump(dict(kind='script', prop=prop, why='driver exit %s' % ex.rc, tags=ex.tags), open(os.path.join(rd, 'replay.json'), 'w'))
            out.violation('generated behaviour did not complete (exit %s), tags %s' % (ex.rc, ex.tags), rd, dict(kind='driver_exit'))
            continue
        evs = sr.load_events(ex.trace)
        api.append([e for e in evs if keep(e)])
        try:
            enr, _ = le.enrich(evs, os.path.join(ex.dir, 'db.keep'))
        except le.ProjectionError as pe:
            raise Broken('projection failed on generated behaviour: %s' % pe)
        struct.append(enr); owners.append(ex)
    st = dict(stats)
    if prop in p_api.PLANS:
        ra = sr.validate_batches('KvTrace', 'KvTrace.cfg', api, batch_lines=8000, nproc=4)
        st['api_states'] = sum(r['states'] for r in ra)
        for r in ra:
            if not r['accepted'] and not out.full():
                ex = owners[r['exec_index']]
                _report_gen(prop, out, ex, 'KvTrace', r, api[r['exec_index']])
    rs = sr.validate_batches('LsmTrace', 'LsmTrace_%s.cfg' % prop, struct, batch_lines=2500, nproc=6)
    st['struct_states'] = sum(r['states'] for r in rs)
    st['traces'] = len(owners)
    for r in rs:
        if not r['accepted'] and not out.full():
            ex = owners[r['exec_index']]
            _report_gen(prop, out, ex, 'LsmTrace', r, struct[r['exec_index']])
    st['states'] = st.get('api_states', 0) + st['struct_states']; st['transitions'] = st['states']
    st['sample'] = dict(tags=chosen[0]['tags'], script=script_text(chosen[0]).split('\n')[:18]) if chosen else {}
    mc['LsmGen'] = st
    for ex in jobs:
        if ex.dir: c.rmtree(ex.dir)
    c.rmtree(d)


def _report_gen(prop, out, ex, layer, r, evs):
    rd = c.replay_dir(prop, 'gen')
    shutil.copy(ex.script, os.path.join(rd, 'script.txt'))
    idx = r['line_in_exec'] if r['line_in_exec'] is not None else 0
    bad = evs[idx] if idx < len(evs) else None
    slim = None if bad is None else {k: (v if k != 'ents' else '%d entries' % len(v)) for k, v in bad.items()}
    json.dump(dict(kind='script', prop=prop, layer=layer, tags=ex.tags, bits=ex.bits, violated=r['violated'], event=slim), open(os.path.join(rd, 'replay.json'), 'w'), indent=1)
    sr.write_trace(os.path.join(rd, 'trace.ndjson'), evs)
    json.dump({'trace.ndjson': dict(module=layer, cfg=('KvTrace_C19.cfg' if prop == 'C19' else 'KvTrace.cfg') if layer == 'KvTrace' else 'LsmTrace_%s.cfg' % prop, header_lines=0, silent_steps=False,
                                    heap='4g', extra_env={}, violated=r['violated'], prefix=idx, lines=len(evs))}, open(os.path.join(rd, 'tv.json'), 'w'), indent=1)
    open(os.path.join(rd, 'README'), 'w').write('Reproduce: cd /verif && ./check replay %s\nA behaviour generated from LsmGen.tla (tags %s), replayed by the seq driver, is rejected by %s: %s at %s\n' % (rd, ex.tags, layer, r['violated'], json.dumps(slim)[:600]))
    out.violation('%s rejects a generated behaviour (tags %s): %s at %s' % (layer, ','.join(ex.tags), r['violated'] or 'no action explains', json.dumps(slim)[:240]), rd,
                  dict(kind='gen', layer=layer, violated=r['violated']))


# =============================================================================================
# C19: repair
# =============================================================================================
def run_c19(tier, seed):
    prop = 'C19'
    t0 = time.time(); out = Outcome(prop); quick = tier == 'quick'
    mc = {}
    # design: with repair in the model every wrong point lookup has the D1 shape and iterators are always right
    r = c.tlc('Lsm', 'Lsm_repair.cfg', workers=c.NCPU, timeout=900, heap='12g', deadlock=False)
    if r.error and not r.violated: raise Broken('Lsm repair model check failed: %s' % r.error)
    mc['Lsm_repair_MC'] = dict(states=r.distinct, transitions=r.generated, invariants=['ReadLatestOrD1', 'IterLatest', 'LevelsWellFormed'], wall_s=round(r.wall, 1))
    if r.violated:
        rd = c.replay_dir(prop, 'mc'); open(os.path.join(rd, 'tlc.out'), 'w').write(r.out)
        out.violation('Lsm.tla with repair: %s violated' % r.violated, rd, dict(kind='mc', violated=r.violated))
    # the known defect D1 is reachable in the design (witness kept as evidence)
    r2 = c.tlc('Lsm', 'Lsm_repair_d1.cfg', workers=c.NCPU, timeout=600, heap='8g', deadlock=False)
    mc['D1_witness_in_model'] = dict(found=(r2.violated == 'ReadLatest'), steps=len(r2.trace))
    # generated behaviours ending in / passing through a repair, replayed with the real ldb_repair + ldb_open
    chosen, stats, d = gen_scripts(seed, 250 if quick else 3000, 8, 14, 400, 200 if quick else 900, repair=True, require_tag='repair')
    if chosen is None:
        rr = stats; rd = c.replay_dir(prop, 'gen'); open(os.path.join(rd, 'tlc.out'), 'w').write(rr.out)
        out.violation('LsmGen.tla (repair): %s violated' % rr.violated, rd, dict(kind='mc', violated=rr.violated))
        chosen = []; stats = {}
    chosen = chosen[:(60 if quick else 600)]
    lib = c.build_lib(); exe = c.build_driver('seq', lib)
    jobs = []
    for i, rec in enumerate(chosen):
        sp = os.path.join(d, 's%d.txt' % i)
        # follow-up workload after the repair: new writes must take precedence and persist
        txt = script_text(rec).rstrip('\n').split('\n')
        txt = txt[:-4] + ['put 0', 'put 3', 'del 6', 'put 9', 'getall', 'flush', 'getall', 'scan', 'reopen', 'getall', 'scan']
        open(sp, 'w').write('\n'.join(txt) + '\n')
        ex = sr.Exec(seed * 1000 + i, 0, 'mixed', bits=GEN_OPTBITS[i % len(GEN_OPTBITS)]); ex.script = sp; ex.tags = rec['tags']
        jobs.append(ex)
    c.pmap(lambda ex: sr.run_exec(exe, ex, env={'VERIF_SCRIPT': ex.script}), jobs, c.NCPU)
    from . import p_api
    keep = lambda e: e['e'] in sr.API_ALL or e['e'] == 'repair'
    traces = []; owners = []
    for ex in jobs:
        if ex.rc != 0:
            rd = c.replay_dir(prop, 'gen'); shutil.copy(ex.script, os.path.join(rd, 'script.txt'))
            json.dump(dict(kind='script', prop=prop, why='driver exit %s (repair or open failed)' % ex.rc, tags=ex.tags), open(os.path.join(rd, 'replay.json'), 'w'))
            out.violation('repair / open failed or the execution aborted (exit %s)' % ex.rc, rd, dict(kind='driver_exit'))
            continue
        traces.append([e for e in sr.load_events(ex.trace) if keep(e)]); owners.append(ex)
    res = sr.validate_batches('KvTrace', 'KvTrace_C19.cfg', traces, batch_lines=6000, nproc=6)
    d1 = 0
    for r in res:
        d1 += len([p for p in r['res'].printed if '"d1"' in p])
        if not r['accepted'] and not out.full():
            ex = owners[r['exec_index']]
            _report_gen(prop, out, ex, 'KvTrace', r, traces[r['exec_index']])
    st = dict(stats); st.pop('tag_counts', None)
    st.update(dict(traces=len(owners), states=sum(r['states'] for r in res), d1_stale_lookups=d1,
                   variants=sorted(set(o['a'] for rec in chosen for o in rec['ops'] if o['op'] == 'repair'))))
    if d1 > 0:
        out.violation('point lookup after repair returned an older value (iterator correct): %d lookups' % d1, '-', dict(kind='d1'))
    mc['LsmGen_repair'] = st
    for ex in jobs:
        if ex.dir: c.rmtree(ex.dir)
    c.rmtree(d)
    rc = out.finish()
    cov = dict(states=sum(v.get('states', 0) for v in mc.values()), transitions=sum(v.get('transitions', v.get('states', 0)) for v in mc.values()),
               traces_validated_against_impl=st.get('traces', 0), samples=[dict(tags=chosen[0]['tags'], script=script_text(chosen[0]).split('\n')[:16])] if chosen else [{}],
               layers=mc, exhaustive=False)
    c.write_evidence(prop, tier, seed, 'model_checking', cov, time.time() - t0, violations=len(out.violations),
                     assumptions=['metadata loss variants: CURRENT lost, MANIFEST lost, both, MANIFEST truncated',
                                  'the known defect D1 (stale point lookup after repair, iterator correct) is tolerated by the named deviation in KvTrace (AllowD1) and reported as KNOWN-FINDING; any other mismatch is a violation'])
    return rc


CHECKS['C19'] = run_c19
