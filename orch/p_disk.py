"""C02 C03 C04(crash half) C05 : I/O-journal trace validation against DiskTrace.tla with real recoveries of
materialised crash images; C17 (switch) rides on the same machinery."""
import json, os, random, re, shutil, time
from . import common as c
from . import diskimg as di
from . import ldbref
from .common import Broken, log, Outcome

RECOVER_TIMEOUT = 60


def record(exe, seed, bits, nb, endmode, env=None):
    d = c.scratch('rec')
    j = os.path.join(d, 'journal')
    p = c.sh([exe, 'record', str(seed), os.path.join(d, 'db'), j, str(bits), str(nb), str(endmode)], timeout=300, env=env)
    if p.returncode != 0:
        return d, j, p
    return d, j, p


def run_recover(exe, sim, img, bits, follow, journal=None, basefiles=None, sync_follow=False):
    """Materialise img, run the real recovery on it, return the parsed result (dict) and optionally the nested journal."""
    d = c.scratch('img')
    imgdir = os.path.join(d, 'db')
    sim.materialise(img, imgdir)
    out = os.path.join(d, 'out.json')
    env = {}
    if sync_follow: env['CRASH_FOLLOW_SYNC'] = '1'
    if journal:
        env['CRASH_JOURNAL'] = os.path.join(d, 'nested.journal')
    p = c.sh([exe, 'recover', imgdir, out, str(bits), str(follow)], timeout=RECOVER_TIMEOUT, env=env)
    res = None
    if getattr(p, 'timed_out', False):
        res = dict(rc=-1, hang=1)
    elif p.returncode != 0:
        res = dict(rc=-2, crashed=p.returncode, stderr=(p.stderr or '')[-300:])
    else:
        try:
            res = json.load(open(out))
        except Exception as ex:
            res = dict(rc=-3, err=str(ex))
    nested = None
    if journal and os.path.exists(env['CRASH_JOURNAL']):
        nested = di.parse_journal(env['CRASH_JOURNAL'])
        base = {}
        for name, i in img.ns.items():
            if name == 'LOCK' or name.startswith('LOG'): continue
            base[name] = bytes(sim.inodes[i].data[:img.lens.get(i, 0)])
        nested = (nested, base)
    c.rmtree(d)
    return res, nested


def parse_ops_desc(s):
    out = []
    if s:
        for it in s.split(','):
            k, v = it.split(':'); out.append([int(k), int(v)])
    return out


def norm_result(r, cls, chain, at, detail=''):
    """Recovered event for the trace (all fields present so that the spec never meets a missing field)."""
    def scan(x):
        return dict(rc=x.get('rc', 0), markers=sorted(x.get('markers', [])), data=x.get('data', []), status=x.get('status', 0),
                    bad=x.get('bad', 0), getmismatch=x.get('getmismatch', 0))
    e = dict(e='Recovered', cls=cls, chain=chain, at=at, detail=detail)
    e.update(scan(r))
    if 'again' in r:
        e['again'] = scan(r['again']) if r['again'].get('rc', 0) == 0 else dict(rc=r['again']['rc'], markers=[], data=[], status=0, bad=0, getmismatch=0)
    if 'follow' in r:
        f = r['follow']
        fo = dict(scan(f)); fo['wrc'] = f.get('wrc', 0)
        fo['ops'] = [[b, parse_ops_desc(desc)] for b, desc in f.get('ops', [])]
        ro = f.get('reopen', {'rc': -1})
        fo['reopen'] = scan(ro) if ro.get('rc', 0) == 0 else dict(rc=ro['rc'], markers=[], data=[], status=0, bad=0, getmismatch=0)
        e['follow'] = fo
    return e


class Plan:
    def __init__(self, tier, prop):
        q = (tier == 'quick')
        self.stride = 2 if q else 1              # every stride-th crash point gets the non-max classes
        self.classes = ['min', 'dirahead', 'dataahead', 'random']
        self.all_classes = not q
        self.torn_cuts = 2 if q else 4
        self.nested_every = (40 if q else 12) if prop in ('C03', 'C05') else 0
        self.follow = prop in ('C05', 'C03', 'C02')
        # C03: process-crash images only; C02: torn tails (a reused log must not swallow the synced writes that follow)
        self.follow_only = ('gap', 'max') if prop == 'C03' else ('torn',) if prop == 'C02' else None
        self.follow_sync = prop == 'C02'     # C03: process-crash images only, acknowledged follow-up writes must survive the next open
        self.model_images = prop in ('C02', 'C03', 'C17')
        self.gap_every = (1 if prop == 'C05' else 2 if q else 1) if prop in ('C03', 'C05') else 0
        self.point_every = 1                     # heavy workloads: only every n-th system call is a crash point
        self.only_classes = None


def explore(exe, journal_path, bits, plan, seed, stats):
    """journal -> trace lines (with Recovered events from real recoveries)."""
    ops = di.parse_journal(journal_path)
    sim = di.FsSim()
    rng = random.Random(seed)
    events = []          # (event dict, [Image...]) in order
    batches = {}
    npoint = 0
    for o in ops:
        imgs = []
        ev = None
        if o.kind == 'mark':
            w = o.text.split(' ')
            if w[0] == 'begin':
                b = int(w[1]); batches[b] = dict(sync=int(w[2]), ops=parse_ops_desc(w[3] if len(w) > 3 else ''))
                ev = dict(e='begin', b=b)
            elif w[0] == 'ack':
                ev = dict(e='ack', b=int(w[1]), sync=int(w[2]), rc=int(w[3]))
                imgs = [sim.img_max(o.idx), sim.img_min(o.idx)] if plan.point_every == 1 else []
            else:
                ev = dict(e='note', text=o.text)
            events.append((ev, imgs)); continue
        pre_pending = len(sim.pending)
        changed = sim.apply(o)
        if not changed:
            continue
        if o.kind == 'open':
            ev = dict(e='create', f=di.base(o.path), i=o.ino)
        elif o.kind == 'write':
            ev = dict(e='write', i=o.ino, end=o.off + o.length)
        elif o.kind == 'sync':
            ev = dict(e='sync', i=o.ino if o.ino is not None else -1)
        elif o.kind == 'rename':
            ev = dict(e='rename', a=di.base(o.path), b=di.base(o.path2))
        elif o.kind == 'link':
            ev = dict(e='link', a=di.base(o.path), b=di.base(o.path2))
        elif o.kind == 'unlink':
            ev = dict(e='unlink', f=di.base(o.path))
        else:
            continue
        npoint += 1
        if plan.point_every > 1 and npoint % plan.point_every != 0 and o.kind not in ('open', 'rename', 'unlink'):
            events.append((ev, [])); continue
        if plan.only_classes is not None:
            for cls in plan.only_classes:
                imgs.append(getattr(sim, 'img_' + cls)(o.idx))
            events.append((ev, imgs)); continue
        imgs.append(sim.img_max(o.idx))
        if plan.gap_every and npoint % plan.gap_every == 0:
            g = sim.img_gap(o.idx, bump=8 if plan.follow else 3 + (npoint // plan.gap_every) % 5)
            if g is not None:
                # worth recovering only when the renumbered log holds records
                li = g.ns.get(g.detail.split('->')[1])
                if li is not None and g.lens.get(li, 0) > 0: imgs.append(g)
        if plan.all_classes:
            imgs += [sim.img_min(o.idx), sim.img_dirahead(o.idx), sim.img_dataahead(o.idx), sim.img_random(o.idx, rng), sim.img_random(o.idx, rng)]
        elif npoint % plan.stride == 0:
            cls = plan.classes[(npoint // plan.stride) % len(plan.classes)]
            imgs.append(getattr(sim, 'img_' + cls)(o.idx, rng) if cls == 'random' else getattr(sim, 'img_' + cls)(o.idx))
        if o.kind == 'write' and o.length > 1:
            kind, _ = di.classify(sim.inodes[o.ino].first_name)
            if kind in ('log', 'manifest', 'temp', 'table'):
                cuts = sorted(set([1, min(3, o.length - 1), o.length // 2, o.length - 1]))
                if kind == 'table' and not plan.all_classes: cuts = cuts[:1]
                for cut in cuts[:plan.torn_cuts] if kind != 'log' else (cuts if plan.all_classes else [cuts[0], cuts[-1]]):
                    imgs.append(sim.img_torn(o.idx, o, cut))
        events.append((ev, imgs))
    stats['ops'] = len(ops); stats['crash_points'] = npoint
    # ---- projection of inode bytes ----
    tbl = {}
    td = c.scratch('tbl')
    paths = {}
    for i, ino in enumerate(sim.inodes):
        kind, num = di.classify(ino.first_name)
        if kind == 'table' and ino.wlen > 0:
            p = os.path.join(td, '%d.ldb' % i); open(p, 'wb').write(bytes(ino.data)); paths[p] = i
    for p, i in paths.items():
        try:
            ents = ldbref.table_entries([p])[p]
            tbl[i] = sorted(set(m for m in (di.marker_of_key(k) for (k, s, t, vl, vh) in ents) if m is not None))
        except ldbref.TableError:
            tbl[i] = []      # incomplete table (still being written when the journal ended)
    c.rmtree(td)
    metas = di.project_inodes(sim, tbl)
    nb = max(batches) if batches else 0
    bat = [dict(sync=batches.get(b, {}).get('sync', 0), ops=batches.get(b, {}).get('ops', [])) for b in range(1, nb + 1)]
    # ---- real recoveries ----
    jobs = []
    for ei, (ev, imgs) in enumerate(events):
        for ii, img in enumerate(imgs):
            jobs.append((ei, ii, img))
    cache = {}
    follow_base = 5000

    def key_of(img, follow, nest):
        return (tuple(sorted(img.ns.items())), tuple(sorted((i, img.lens.get(i, 0)) for i in set(img.ns.values()))), follow, nest)

    prop_c05 = plan.follow and plan.follow_only is None

    def do(job):
        ei, ii, img = job
        follow = (follow_base + (ei // 2) % 2) if (plan.follow and (ei + ii) % 2 == 0) else 0
        if plan.follow and img.cls == 'gap': follow = follow_base + 1      # no flush in the follow-up: its writes stay in the log
        if plan.follow_only is not None and (img.cls not in plan.follow_only or (img.cls == 'max' and ei % 4 != 0)): follow = 0
        if plan.follow_only == ('torn',) and img.cls == 'torn': follow = follow_base + 1 if (bits >> 11) & 1 else 0     # only with reuse_logs
        if prop_c05 and (bits >> 11) & 1 and img.cls == 'max' and ei % 40 == 7: follow = follow_base + 2                     # big version edits after a reuse
        nest = bool(plan.nested_every and img.cls in ('max', 'min') and ei % plan.nested_every == 0 and ii < 2)
        if nest: follow = 0     # the journalled recovery must not contain follow-up writes
        k = key_of(img, follow, nest)
        if k in cache:
            return job, cache[k], True
        res, nested = run_recover(exe, sim, img, bits, follow, journal=nest, sync_follow=getattr(plan, 'follow_sync', False))
        nres = []
        if nested:
            nops, basefiles = nested
            nsim = di.FsSim(basefiles)
            for no in nops:
                if no.kind == 'mark': continue
                if not nsim.apply(no): continue
                for nimg in ([nsim.img_max(no.idx)] + ([nsim.img_min(no.idx)] if img.cls != 'max' or no.idx % 3 == 0 else [])):
                    r2, _ = run_recover(exe, nsim, nimg, bits, 0)
                    nres.append((r2, nimg.cls, no.idx))      # labelled when used: the same image content can be the max image of one
                                                             # crash point and the min image of a later one (different chains)
        cache[k] = (res, nres)
        return job, (res, nres), False

    t0 = time.time()
    results = c.pmap(do, jobs, c.NCPU)
    stats['recover_wall_s'] = round(time.time() - t0, 1)
    by_event = {}
    nreal = 0; nnest = 0; classes = {}
    for (ei, ii, img), (res, nres), cached in results:
        if not cached: nreal += 1
        chain = 'max' if img.cls in ('max', 'gap') else 'power'
        by_event.setdefault(ei, []).append(norm_result(res, img.cls, chain, img.at, img.detail))
        classes[img.cls] = classes.get(img.cls, 0) + 1
        for (r2, ncls, nidx) in nres:
            nchain = 'max' if (img.cls in ('max', 'gap') and ncls == 'max') else 'power'
            by_event[ei].append(norm_result(r2, img.cls + '+' + ncls, nchain, img.at, 'nested@%d' % nidx)); nnest += 1
    stats['images'] = len(jobs); stats['real_recoveries'] = nreal + nnest; stats['nested_recoveries'] = nnest; stats['image_classes'] = classes
    lines = [dict(e='meta', inos=metas, batches=bat)]
    for ei, (ev, imgs) in enumerate(events):
        lines.append(ev)
        for r in by_event.get(ei, []):
            lines.append(r)
    stats['batches'] = nb
    stats['inodes'] = len(metas)
    return lines, sim


CFG = {
    'C02': ['ModelSyncedSurvive', 'RecSynced', 'RecNothingElse', 'RecFollow'],
    'C03': ['ModelProcessCrash', 'RecAcked', 'RecNothingElse', 'RecAtomic', 'RecFollow'],
    'C04': ['RecAtomic', 'RecNothingElse'],
    'C05': ['RecOpenOk', 'RecPrefix', 'RecAtomic', 'RecAgain', 'RecFollow', 'RecNothingElse'],
}


def fault_files_layer(prop, tier, seed, out, mc):
    """C13 under I/O failures: journals of fault-injected workloads validated by DiskTrace with ModelNoLiveFileMissing
    (after every system call, every table named by the MANIFEST bytes on disk is present and complete)."""
    quick = tier == 'quick'
    lib = c.build_lib(); exe = c.build_driver('crash', lib)
    cfg = write_cfg(prop, ['ModelNoLiveFileMissing'])
    ENOSPC, EIO = 28, 5
    st = dict(workloads=0, runs=0, fired=0, states=0, transitions=0, traces=0)
    wls = [(seed * 1000 + 9, 0x002, 30)] if quick else [(seed * 1000 + i, b, 40) for i, b in enumerate([0x000, 0x800, 0x102, 0x904])]
    plan = Plan(tier, prop); plan.only_classes = []; plan.nested_every = 0; plan.point_every = 10 ** 9
    for (wseed, bits, nb) in wls:
        if out.full(): break
        d0 = c.scratch('ffb'); j0 = os.path.join(d0, 'journal')
        p = c.sh([exe, 'record', str(wseed), os.path.join(d0, 'db'), j0, str(bits), str(nb), '1'], timeout=120, env=dict(FAULT_K=10 ** 9, FAULT_PERSIST=0, FAULT_ERRNO=ENOSPC))
        if p.returncode != 0: raise Broken('fault baseline failed rc=%s' % p.returncode)
        n = 0
        for text in marks_of(j0):
            if text.startswith('count '): n = int(text.split(' ')[1])
        c.rmtree(d0)
        if n <= 0: raise Broken('no eligible calls counted')
        # every write / fsync on a MANIFEST descriptor, one after the other: the run with k = (last fired call) + 1 trips at the next one
        recs = []; k = 1
        while k <= n and len(recs) < (70 if quick else 400):
            d = c.scratch('ffl'); j = os.path.join(d, 'journal'); err = EIO if len(recs) % 2 else ENOSPC
            p = c.sh([exe, 'record', str(wseed), os.path.join(d, 'db'), j, str(bits), str(nb), '1'], timeout=120,
                     env=dict(FAULT_K=k, FAULT_PERSIST=0, FAULT_ERRNO=err, FAULT_MASK=6, FAULT_ONLY_MANIFEST=1))
            call = None
            if not getattr(p, 'timed_out', False) and p.returncode in (0, 3, 4):
                for t in marks_of(j):
                    if t.startswith('fault '):
                        mm = re.search(r'call#(\d+)', t)
                        if mm: call = int(mm.group(1))
                        break
            if call is None:
                c.rmtree(d); break          # no further MANIFEST call (or the faulted execution died: C12's business)
            recs.append(((call, 0, err), d, j)); k = call + 1

        def one(rec):
            jb, d, j = rec
            stt = {}
            lines, sim = explore(exe, j, bits, plan, wseed, stt)
            tp = os.path.join(d, 'trace.ndjson')
            with open(tp, 'w') as f:
                for ln in lines: f.write(json.dumps(ln, separators=(',', ':')) + '\n')
            r = c.trace_validate('DiskTrace', cfg, tp, timeout=900, heap='4g', header_lines=1)
            return jb, (r, lines, tp, j, d, True), None
        jobs = recs
        for jb, val, err in c.pmap(one, jobs, 8):
            st['runs'] += 1
            if val is None:
                continue          # crashes / hangs of faulted executions are C12's business
            r, lines, tp, j, d, fired = val
            st['fired'] += 1 if fired else 0; st['traces'] += 1
            st['states'] += r['res'].distinct; st['transitions'] += r['res'].generated
            if not r['accepted'] and not out.full():
                idx = r['prefix'] or 0
                bad = lines[idx] if idx < len(lines) else None
                rd = c.replay_dir(prop, 'faultfiles'); shutil.copy(tp, os.path.join(rd, 'trace.ndjson')); shutil.copy(j, os.path.join(rd, 'journal'))
                json.dump(dict(kind='faultfiles', prop=prop, workload=dict(seed=wseed, bits=bits, nb=nb), site=dict(k=jb[0], persist=jb[1], errno=jb[2]),
                               violated=r['violated'], line=idx, event=bad), open(os.path.join(rd, 'replay.json'), 'w'), indent=1)
                out.violation('after an injected I/O failure (call #%d, errno %d) a table named by the MANIFEST on disk is missing: DiskTrace %s at %s (seed=%d bits=%#x)' % (
                    jb[0], jb[2], r['violated'] or 'rejects', json.dumps(bad)[:200], wseed, bits), rd, dict(kind='faultfiles', violated=r['violated']))
            c.rmtree(d)
        st['workloads'] += 1
    mc['FaultFiles'] = st


def write_cfg(prop, invs):
    path = os.path.join(c.SPEC, 'DiskTrace_%s.cfg' % prop)
    txt = 'SPECIFICATION Spec\nCHECK_DEADLOCK FALSE\n' + ''.join('INVARIANT %s\n' % i for i in invs)
    if not os.path.exists(path) or open(path).read() != txt:
        open(path, 'w').write(txt)
    return os.path.basename(path)


def heavy_workloads(tier, seed, prop):
    """Megabytes of data, 1 MiB write buffer, automatic flushes/compactions only: compactions with several outputs in
    flight while the log is switched (file numbers allocated far ahead of the last MANIFEST record)."""
    if prop not in ('C05', 'C03', 'C13'):
        return []
    n = 1 if tier == 'quick' else 4
    return [(seed * 1000 + 500 + i, 0x006 | (0x800 if i % 2 else 0), 150 if tier == 'quick' else 240, 0) for i in range(n)]


def race_workloads(tier, seed, prop):
    """Schedules steered with delay points: a compaction is parked after its last output while the writer switches
    logs, so that obsolete-file removal runs with an immutable memtable pending."""
    if prop not in ('C02', 'C03', 'C13'):
        return []
    n = 1 if tier == 'quick' else 6
    return [(seed * 1000 + 700 + i, 0x000 | (0x800 if i % 2 else 0), 30 if tier == 'quick' else 60, i % 2) for i in range(n)]


def reopen_workloads(tier, seed, prop):
    """Frequent close / open cycles inside the workload: every recovery writes a new MANIFEST, switches CURRENT and
    removes the logs it replayed, with unsynced acknowledged batches in their tails."""
    if prop not in ('C02', 'C03', 'C05'):
        return []
    n = 2 if tier == 'quick' else 8
    return [(seed * 1000 + 800 + i, [0x000, 0x800, 0x102, 0x904][i % 4], 26 if tier == 'quick' else 44, i % 2) for i in range(n)]


def bigbatch_workloads(tier, seed, prop):
    """Every third batch spans several 32 KiB log blocks (marker first, 120 KB of filler, data keys last)."""
    if prop not in ('C04', 'C03'):
        return []
    n = 1 if tier == 'quick' else 4
    return [(seed * 1000 + 900 + i, [0x000, 0x800, 0x102, 0x904][i % 4], 12 if tier == 'quick' else 24, i % 2) for i in range(n)]


def blockfit_workloads(tier, seed, prop):
    """Every second batch is sized so that its log record ends exactly at the end of a 32 KiB log block, after 0-2 further
    full blocks (CRASH_BLOCKFIT): the boundary case of the log writer's fragmenting and of its hand-over to the kernel."""
    if prop not in ('C03', 'C04'):
        return []
    n = 1 if tier == 'quick' else 4
    return [(seed * 1000 + 950 + i, [0x000, 0x800, 0x102, 0x904][i % 4], 16 if tier == 'quick' else 30, 0) for i in range(n)]


def workloads(tier, seed, prop):
    """(seed, optbits, nbatches, endmode). reuse_logs is bit 11; wb sizes bits 1-2; snappy bit 8."""
    base = [(0, 0x000), (1, 0x800), (2, 0x102), (3, 0x904)]
    n = 2 if tier == 'quick' else 12
    out = []
    for i in range(n):
        _, bits = base[i % len(base)]
        if i >= len(base): bits ^= (i * 0x2A5) & 0x3FF & ~1
        nb = (14 if tier == 'quick' else 40) + (i % 3) * 4
        out.append((seed * 1000 + i, bits, nb, i % 2))
    return out


def run_disk(prop, tier, seed, extra=None):
    t0 = time.time()
    out = Outcome(prop)
    lib = c.build_lib(); exe = c.build_driver('crash', lib)
    ldbref.build()
    plan = Plan(tier, prop)
    cfg = write_cfg(prop, CFG[prop])
    total = dict(workloads=0, ops=0, crash_points=0, images=0, real_recoveries=0, nested_recoveries=0, tv_states=0, tv_transitions=0, batches=0)
    samples = []
    classes = {}
    allw = [(w, False) for w in workloads(tier, seed, prop)] + [(w, True) for w in heavy_workloads(tier, seed, prop)]
    allw += [(w, 'race') for w in race_workloads(tier, seed, prop)]
    allw += [(w, 'reopen') for w in reopen_workloads(tier, seed, prop)]
    allw += [(w, 'bigbatch') for w in bigbatch_workloads(tier, seed, prop)]
    allw += [(w, 'blockfit') for w in blockfit_workloads(tier, seed, prop)]
    for ((wseed, bits, nb, endmode), heavy) in allw:
        if out.full(): break
        renv = {'CRASH_HEAVY': '1'} if heavy is True else {'CRASH_RACE': '1'} if heavy == 'race' else {'CRASH_REOPEN': '1'} if heavy == 'reopen' else {'CRASH_BIGBATCH': '1'} if heavy == 'bigbatch' else {'CRASH_BLOCKFIT': '1'} if heavy == 'blockfit' else None
        if heavy in ('race', 'reopen', 'bigbatch', 'blockfit'): heavy = False
        plan = Plan(tier, prop)
        if heavy:
            plan.point_every = 12 if tier == 'quick' else 5; plan.only_classes = ['max', 'min']; plan.nested_every = 0; plan.model_images = False
        d, j, p = record(exe, wseed, bits, nb, endmode, env=renv)
        if p.returncode != 0:
            d2, j2, p2 = record(exe, wseed, bits, nb, endmode, env=renv)
            if p2.returncode != 0:
                rd = c.replay_dir(prop, 'record')
                json.dump(dict(kind='crash_record', seed=wseed, bits=bits, nb=nb, endmode=endmode, rc=p.returncode, stderr=p.stderr[-1000:]), open(os.path.join(rd, 'replay.json'), 'w'))
                out.violation('workload did not complete (rc=%s) seed=%d bits=%#x' % (p.returncode, wseed, bits), rd, dict(kind='record_failed'))
                c.rmtree(d); c.rmtree(d2); continue
            c.rmtree(d); d, j, p = d2, j2, p2
        stats = {}
        lines, sim = explore(exe, j, bits, plan, wseed, stats)
        td = c.scratch('dtv'); tp = os.path.join(td, 'trace.ndjson')
        with open(tp, 'w') as f:
            for ln in lines: f.write(json.dumps(ln, separators=(',', ':')) + '\n')
        r = c.trace_validate('DiskTrace', cfg, tp, timeout=1500, heap='6g', header_lines=1)
        total['workloads'] += 1
        for k in ('ops', 'crash_points', 'images', 'real_recoveries', 'nested_recoveries', 'batches'):
            total[k] += stats.get(k, 0)
        for k, v in stats.get('image_classes', {}).items(): classes[k] = classes.get(k, 0) + v
        total['tv_states'] += r['res'].distinct; total['tv_transitions'] += r['res'].generated
        if len(samples) < 2:
            rec = [l for l in lines if l.get('e') == 'Recovered']
            samples.append(dict(workload=dict(seed=wseed, optbits=bits, batches=nb, close_at_end=endmode),
                                journal_excerpt=[l for l in lines[1:] if l.get('e') != 'Recovered'][10:22],
                                recovered_example=rec[len(rec) // 2] if rec else None))
        if not r['accepted']:
            _report(prop, out, r, lines, tp, j, wseed, bits, nb, endmode, exe, plan, cfg, renv)
        c.rmtree(d); c.rmtree(td)
    extra_cov = {}
    if extra is not None and not out.full():
        extra_cov = extra(prop, tier, seed, out)
    rc = out.finish()
    cov = dict(states=total['tv_states'] + sum(v.get('states', 0) for v in extra_cov.values()),
               transitions=total['tv_transitions'] + sum(v.get('transitions', 0) for v in extra_cov.values()),
               traces_validated_against_impl=total['workloads'] + sum(v.get('executions', 0) for v in extra_cov.values()), layers=extra_cov,
               samples=samples or [{}], totals=total, image_classes=classes, invariants=CFG[prop], exhaustive=False,
               model_images='every model-allowed crash image at every system-call boundary (TLC, inside the invariant)' if plan.model_images else 'n/a')
    c.write_evidence(prop, tier, seed, 'model_checking', cov, time.time() - t0, violations=len(out.violations),
                     assumptions=['crash model of C02: per-file prefix >= last fsync; directory ops in issue order, durable at any fsync',
                                  'O_TRUNC on an existing name is modelled as a new inode bound to the name',
                                  'projection: independent Python log/batch/edit decoders + genuine LevelDB Table reader',
                                  'real fsync is skipped by the shim (durability is modelled)'])
    return rc


def _report(prop, out, r, lines, tp, journal, wseed, bits, nb, endmode, exe, plan, cfg, renv=None):
    pre = r['prefix'] or 0
    # with an invariant violation the offending line is the last consumed one
    idx = pre if r['violated'] is None else pre
    bad = lines[idx] if idx < len(lines) else None
    shape = dict(kind='disk', violated=r['violated'])
    if bad and bad.get('e') == 'Recovered':
        shape.update(cls=bad.get('cls'), reuse_logs=(bits >> 11) & 1, has_follow='follow' in bad)
    # reproduce: explore the same recorded journal again (the recording itself may depend on thread timing; what is
    # decided is the recovery from the images of THIS journal, which is repeatable) and validate again
    rep = False
    st = {}
    lines2, sim2 = explore(exe, journal, bits, plan, wseed, st)
    td = c.scratch('dtv2'); tp2 = os.path.join(td, 'trace.ndjson')
    with open(tp2, 'w') as f:
        for ln in lines2: f.write(json.dumps(ln, separators=(',', ':')) + '\n')
    r2 = c.trace_validate('DiskTrace', cfg, tp2, timeout=1500, heap='6g', header_lines=1)
    rep = not r2['accepted']
    c.rmtree(td)
    if not rep:
        # keep the evidence of a rejection that did not recur (schedule-dependent recovery?) so that it can be inspected
        rd = c.replay_dir(prop, 'unrepeated')
        shutil.copy(tp, os.path.join(rd, 'trace.ndjson')); shutil.copy(journal, os.path.join(rd, 'journal'))
        json.dump(dict(kind='disk', prop=prop, workload=dict(seed=wseed, bits=bits, nb=nb, endmode=endmode, env=renv or {}), violated=r['violated'], line=idx, event=bad),
                  open(os.path.join(rd, 'replay.json'), 'w'), indent=1)
        c.save_tv(rd)
        raise Broken('DiskTrace rejection did not repeat (seed %d bits %#x, violated %s; kept in %s)' % (wseed, bits, r['violated'], rd))
    rd = c.replay_dir(prop, 'disk')
    shutil.copy(tp, os.path.join(rd, 'trace.ndjson'))
    shutil.copy(journal, os.path.join(rd, 'journal'))
    slim = None
    if bad:
        slim = {k: v for k, v in bad.items() if k not in ('follow', 'again')}
    json.dump(dict(kind='disk', prop=prop, workload=dict(seed=wseed, bits=bits, nb=nb, endmode=endmode, env=renv or {}), violated=r['violated'],
                   line=idx, event=bad, tlc_tail=r['res'].out[-2500:]), open(os.path.join(rd, 'replay.json'), 'w'), indent=1)
    open(os.path.join(rd, 'README'), 'w').write('Reproduce: cd /verif && ./check replay %s\nDiskTrace: %s at trace line %d\n%s\n' % (rd, r['violated'] or 'event not explained', idx + 1, json.dumps(slim)[:1500]))
    what = 'DiskTrace %s at line %d: %s (workload seed=%d bits=%#x)' % (r['violated'] or 'rejects', idx + 1, json.dumps(slim)[:300], wseed, bits)
    out.violation(what, rd, shape)


def _c04_visibility(prop, tier, seed, out):
    """Visibility half of C04: snapshot / iterator reads concurrent with multi-key batches see all of a batch or none
    (every read equals the value at ONE captured sequence; captures never fall inside a group)."""
    from . import p_conc
    st = {}
    p_conc.conc_layer('C04', 'ConcTrace_C08.cfg', tier, seed, out, st)
    st.pop('sample', None)
    return {'ConcTrace': st}


def _c02_group_commit(prop, tier, seed, out):
    """Concurrent half of C02: in multi-threaded runs with mixed sync / non-sync writers, no sync write rides in a group led
    by a non-sync write, and a group led by a sync write is published only after a successful fsync of the log (ConcTrace)."""
    from . import p_conc
    st = {}
    p_conc.conc_layer('C02', 'ConcTrace_C08.cfg', tier, seed, out, st)
    st.pop('sample', None)
    return {'ConcTrace': st}


def _c03_wfile(prop, tier, seed, out):
    """The buffered writable file under every log, MANIFEST and table write (WFile.tla): exhaustive check of the transcription
    for a small buffer, then the real ldb_wfile_t driven along scripts of boundary-sized appends (0, 1, B-1, B, B+1, 2B, ...),
    flushes, syncs and closes, with and without short writes; WFileTrace requires after every call that the file holds a
    prefix of the appended stream, and all of it once flush / sync / close returned."""
    import random, shutil
    quick = tier == 'quick'
    st = dict(states=0, transitions=0, executions=0)
    r = c.tlc('WFileMC', 'WFileMC.cfg', workers=4, timeout=900, heap='4g', deadlock=False)
    if r.error:
        raise RuntimeError('WFileMC failed: %s' % r.error[:300])
    st['mc'] = dict(states=r.distinct, transitions=r.generated, B=3, append_sizes='0..8')
    lib = c.build_lib(); exe = c.build_driver('wfile', lib, shim=False)
    rng = random.Random(seed * 31 + 5)
    B = 65536
    edge = [0, 1, 7, 4096, 32768, B - 1, B, B + 1, 2 * B - 1, 2 * B, 2 * B + 1]
    d = c.scratch('wf'); sp = os.path.join(d, 'script.txt'); tp = os.path.join(d, 'wfile.ndjson'); calls = 0
    with open(sp, 'w') as f:
        for fi in range(3 if quick else 12):
            f.write('R\nH %d\n' % (0 if fi % 3 != 2 else rng.choice([1 << 15, 50000, 1 << 16])))
            total = 0
            for _ in range(12 if quick else 20):
                x = rng.random()
                if x < 0.6:
                    n = rng.choice(edge) if rng.random() < 0.6 else rng.choice([rng.randint(0, 200), rng.randint(0, B), B - rng.randint(0, 40)])
                    if total + n > 700000: n = rng.randint(0, 100)
                    total += n; f.write('A %d\n' % n)
                elif x < 0.85: f.write('F\n')
                else: f.write('S\n')
                calls += 1
            f.write('C\n'); calls += 1
    p = c.sh([exe, sp, tp, os.path.join(d, 'file.bin')], timeout=300)
    if p.returncode != 0:
        p2 = c.sh([exe, sp, tp, os.path.join(d, 'file.bin')], timeout=300)
        if p2.returncode == 0: raise RuntimeError('wfile driver failure not reproducible')
        rd = c.replay_dir(prop, 'wfile'); shutil.copy(sp, os.path.join(rd, 'script.txt'))
        json.dump(dict(kind='wfile', why='driver exit %s' % p.returncode, stderr=(p.stderr or '')[-500:]), open(os.path.join(rd, 'replay.json'), 'w'))
        out.violation('the buffered writable file fails on a generated script (exit %s)' % p.returncode, rd, dict(kind='wfile_crash'))
        c.rmtree(d); return {'WFile': st}
    r = c.trace_validate('WFileTrace', 'WFileTrace.cfg', tp, timeout=1500, heap='6g')
    st['states'] = r['res'].distinct; st['transitions'] = r['res'].generated; st['executions'] = 1; st['calls'] = calls
    if not r['accepted']:
        lines = open(tp).read().split('\n')
        bad = lines[r['prefix']] if r['prefix'] is not None and r['prefix'] < len(lines) else None
        rd = c.replay_dir(prop, 'wfile'); shutil.copy(tp, os.path.join(rd, 'trace.ndjson')); shutil.copy(sp, os.path.join(rd, 'script.txt'))
        json.dump(dict(kind='wfile', line=r['prefix'], event=bad), open(os.path.join(rd, 'replay.json'), 'w'), indent=1)
        out.violation('buffered writable file: bytes lost, reordered or still in user space after flush / sync / close: %s' % (bad or '')[:300], rd, dict(kind='wfile'))
    c.rmtree(d)
    return {'WFile': st}


CHECKS = {
    'C02': lambda tier, seed: run_disk('C02', tier, seed, extra=_c02_group_commit),
    'C03': lambda tier, seed: run_disk('C03', tier, seed, extra=_c03_wfile),
    'C04': lambda tier, seed: run_disk('C04', tier, seed, extra=_c04_visibility),
    'C05': lambda tier, seed: run_disk('C05', tier, seed),
}


# =============================================================================================
# C12: fail the k-th intercepted system call for every k
# =============================================================================================
ENOSPC, EIO = 28, 5


def marks_of(journal):
    out = []
    for o in di.parse_journal(journal):
        if o.kind == 'mark':
            out.append(o.text)
    return out


def fault_run(exe, wseed, bits, nb, endmode, k, persist, err, mask=255, extra_env=None):
    """One faulted execution + recovery of the directory it left behind. Returns (events, meta) or a failure description."""
    env = dict(FAULT_K=k, FAULT_PERSIST=persist, FAULT_ERRNO=err, FAULT_MASK=mask)
    if extra_env: env.update(extra_env)
    d = c.scratch('flt')
    j = os.path.join(d, 'journal')
    dbdir = os.path.join(d, 'db')
    p = c.sh([exe, 'record', str(wseed), dbdir, j, str(bits), str(nb), str(endmode)], timeout=90, env=env)
    info = dict(k=k, persist=persist, errno=err, endmode=endmode)
    if getattr(p, 'timed_out', False):
        c.rmtree(d); return dict(fail='hang', info=info)
    if p.returncode not in (0, 3):
        c.rmtree(d); return dict(fail='crash rc=%s %s' % (p.returncode, (p.stderr or '')[-200:]), info=info)
    evs = [dict(e='Reset', **info)]
    batches = {}
    fired = False
    for text in marks_of(j):
        w = text.split(' ')
        if w[0] == 'begin':
            b = int(w[1]); batches[b] = dict(sync=int(w[2]), ops=parse_ops_desc(w[3] if len(w) > 3 else '')); evs.append(dict(e='begin', b=b))
        elif w[0] == 'ack':
            evs.append(dict(e='ack', b=int(w[1]), sync=int(w[2]), rc=int(w[3])))
        elif w[0] == 'fault':
            fired = True; evs.append(dict(e='fault', count=int(w[1]), desc=' '.join(w[2:])))
        elif w[0] == 'read':
            evs.append(dict(e='read', k=int(w[1][1:]), rc=int(w[2]), v=int(w[3])))
        else:
            evs.append(dict(e='note', text=text))
    if p.returncode == 3:
        # the initial open failed because the fault hit it: nothing was acknowledged; the directory must still open afterwards
        pass
    out = os.path.join(d, 'out.json')
    p2 = c.sh([exe, 'recover', dbdir, out, str(bits), '0'], timeout=RECOVER_TIMEOUT)
    if getattr(p2, 'timed_out', False):
        c.rmtree(d); return dict(fail='recover hang', info=info)
    try:
        res = json.load(open(out))
    except Exception:
        c.rmtree(d); return dict(fail='recover crashed rc=%s' % p2.returncode, info=info)
    evs.append(norm_result(res, 'afterfault', 'max', 0, 'k=%s' % k))
    c.rmtree(d)
    return dict(events=evs, batches=batches, fired=fired, info=info)


def run_fault(tier, seed):
    prop = 'C12'
    t0 = time.time()
    out = Outcome(prop)
    lib = c.build_lib(); exe = c.build_driver('crash', lib)
    total = dict(workloads=0, sites=0, runs=0, fired=0, tv_states=0, tv_transitions=0)
    samples = []
    REOPEN = {'FAULT_REOPEN': '1', 'CRASH_REOPEN': '1'}      # close / open cycles inside the faulted workload: failures met by ldb_open itself
    wls = [(seed * 1000 + 7, 0x000, 22, None), (seed * 1000 + 8, 0x800, 22, None), (seed * 1000 + 9, 0x000, 20, REOPEN)] if tier == 'quick' else \
          [(seed * 1000 + i, b, 40, None) for i, b in enumerate([0x000, 0x800, 0x102, 0x904])] + [(seed * 1000 + 10 + i, b, 40, REOPEN) for i, b in enumerate([0x000, 0x800])]
    for (wseed, bits, nb, wenv) in wls:
        if out.full(): break
        # baseline (fault never fires) to learn how many eligible calls the workload makes
        d = c.scratch('fb'); j = os.path.join(d, 'journal')
        p = c.sh([exe, 'record', str(wseed), os.path.join(d, 'db'), j, str(bits), str(nb), '1'], timeout=120, env=dict(dict(FAULT_K=10 ** 9, FAULT_PERSIST=0, FAULT_ERRNO=ENOSPC), **(wenv or {})))
        if p.returncode != 0:
            raise Broken('fault baseline failed rc=%s %s' % (p.returncode, p.stderr[-300:]))
        n = 0
        for text in marks_of(j):
            if text.startswith('count '): n = int(text.split(' ')[1])
        c.rmtree(d)
        if n <= 0: raise Broken('no eligible calls counted')
        step = (2 if wenv else 5) if tier == 'quick' else 1      # reopen workloads: failures inside ldb_open are the point, sample densely
        jobs = []
        for k in range(1, n + 1, step):
            variants = [(0, ENOSPC), (1, ENOSPC)] if tier == 'quick' else [(0, ENOSPC), (1, ENOSPC), (0, EIO), (1, EIO)]
            for vi, (persist, err) in enumerate(variants):
                jobs.append((k, persist, err, (k + vi) % 2))
        results = c.pmap(lambda jb: fault_run(exe, wseed, bits, nb, jb[3], jb[0], jb[1], jb[2], extra_env=wenv), jobs, c.NCPU)
        total['workloads'] += 1; total['sites'] += len(range(1, n + 1, step)); total['runs'] += len(jobs)
        lines = None; allev = []
        for r in results:
            if 'fail' in r:
                # reproduce once before reporting
                i = r['info']
                r2 = fault_run(exe, wseed, bits, nb, i['endmode'], i['k'], i['persist'], i['errno'], extra_env=wenv)
                if 'fail' in r2:
                    rd = c.replay_dir(prop, 'fault')
                    json.dump(dict(kind='fault', workload=dict(seed=wseed, bits=bits, nb=nb), site=i, why=r['fail']), open(os.path.join(rd, 'replay.json'), 'w'), indent=1)
                    out.violation('faulted execution %s: %s (seed=%d bits=%#x)' % (r['fail'], i, wseed, bits), rd, dict(kind='fault_exec', why=r['fail'].split(' ')[0]))
                continue
            if r['fired']: total['fired'] += 1
            if lines is None:
                nbm = max(r['batches']) if r['batches'] else 0
                bat = [dict(sync=r['batches'].get(b, {}).get('sync', 0), ops=r['batches'].get(b, {}).get('ops', [])) for b in range(1, nb + 1)]
                lines = [dict(e='meta', batches=bat)]
            allev.append(r['events'])
        if lines is None: continue
        # all executions of one workload share the batch table: validate them in a few TLC runs
        chunks = [allev[i::4] for i in range(4)]

        def tv(chunk):
            td = c.scratch('ftv'); tp = os.path.join(td, 't.ndjson')
            with open(tp, 'w') as f:
                f.write(json.dumps(lines[0], separators=(',', ':')) + '\n')
                for evs in chunk:
                    for e in evs: f.write(json.dumps(e, separators=(',', ':')) + '\n')
            r = c.trace_validate('FaultTrace', 'FaultTrace.cfg', tp, timeout=1200, heap='4g', header_lines=1)
            return r, tp, chunk
        for r, tp, chunk in c.pmap(tv, [ch for ch in chunks if ch], 4):
            total['tv_states'] += r['res'].distinct; total['tv_transitions'] += r['res'].generated
            if not r['accepted'] and not out.full():
                flat = [e for evs in chunk for e in evs]
                idx = (r['prefix'] or 1) - 1
                bad = flat[idx] if idx < len(flat) else None
                # find the execution (last Reset before idx)
                site = None
                for e in flat[:idx + 1]:
                    if e['e'] == 'Reset': site = e
                fault = None
                for e in flat[:idx + 1]:
                    if e['e'] == 'Reset': fault = None
                    if e['e'] == 'fault': fault = e
                # reproduce that single site
                # (the k-th call of a run with background threads is not always the same call: neighbouring k are tried as well)
                rep = False
                for dk in (0, 0, 1, -1, 2, -2):
                    r2 = fault_run(exe, wseed, bits, nb, site['endmode'], max(1, site['k'] + dk), site['persist'], site['errno'], extra_env=wenv)
                    if 'events' in r2:
                        rr, tp2, _ = tv([r2['events']])
                        rep = not rr['accepted']
                    elif 'fail' in r2:
                        rep = True
                    if rep: break
                if not rep:
                    rd = c.replay_dir(prop, 'unrepeated'); shutil.copy(tp, os.path.join(rd, 'trace.ndjson'))
                    json.dump(dict(kind='fault', workload=dict(seed=wseed, bits=bits, nb=nb), site=site, violated=r['violated'], event=bad, fault=fault), open(os.path.join(rd, 'replay.json'), 'w'), indent=1)
                    raise Broken('FaultTrace rejection did not repeat for site %s (kept in %s)' % (site, rd))
                rd = c.replay_dir(prop, 'fault')
                shutil.copy(tp, os.path.join(rd, 'trace.ndjson'))
                json.dump(dict(kind='fault', workload=dict(seed=wseed, bits=bits, nb=nb), site=site, violated=r['violated'], event=bad, fault=fault,
                               tlc_tail=r['res'].out[-2000:]), open(os.path.join(rd, 'replay.json'), 'w'), indent=1)
                fd = (fault or {}).get('desc', '')
                shape = dict(kind='fault', violated=r['violated'], persist=site['persist'], call=fd.split(' ')[0] if fd else None,
                             file=('log' if '.log' in fd else 'other') if fd else None)
                out.violation('FaultTrace %s: site %s fault=%s event=%s' % (r['violated'], site, fd, json.dumps(bad)[:200]), rd, shape)
        if len(samples) < 2 and allev:
            samples.append(dict(workload=dict(seed=wseed, optbits=bits, batches=nb, eligible_calls=n), execution_excerpt=allev[len(allev) // 2][:14]))
    rc = out.finish()
    cov = dict(evaluations=total['runs'], distinct_nontrivial=total['fired'],
               rule='one execution per (failure site k, one-shot|persistent, errno, close|kill); non-trivial = the injected failure actually fired before the workload ended',
               samples=samples or [{}], states=total['tv_states'], transitions=total['tv_transitions'], traces_validated_against_impl=total['runs'], totals=total,
               invariants=['FaultOpenOk', 'FaultAckedSurvive', 'FaultNothingElse', 'FaultAtomic', 'FaultReadsCorrect'], exhaustive=False)
    c.write_evidence(prop, tier, seed, 'model_checking', cov, time.time() - t0, violations=len(out.violations),
                     assumptions=['failures are injected at the libc boundary for paths under the database directory (open, write, fsync, rename, unlink, close, mkdir/link, read/pread/mmap)',
                                  'a failed write may or may not be present after reopen; every write acknowledged with OK must be'])
    return rc


CHECKS['C12'] = lambda tier, seed: run_fault(tier, seed)


# =============================================================================================
# C11: byte-position fault enumeration on closed databases
# =============================================================================================
def table_regions(data):
    """offset -> region name, from the independent table reader."""
    sys_path = os.path.join(c.HARNESS, 'proj')
    import sys
    if sys_path not in sys.path: sys.path.insert(0, sys_path)
    import sstable
    regs = []
    try:
        t = sstable.read_table(data)
    except Exception:
        return lambda off: 'table'
    for i, b in enumerate(t['blocks']):
        regs.append((b['offset'], b['offset'] + b['size'], 'data_payload'))
        regs.append((b['offset'] + b['size'], b['offset'] + b['size'] + 1, 'data_trailer_type'))
        regs.append((b['offset'] + b['size'] + 1, b['offset'] + b['size'] + 5, 'data_trailer_crc'))
    if t['filter']:
        regs.append((t['filter']['offset'], t['filter']['offset'] + t['filter']['size'] + 5, 'filter'))
    regs.append((t['meta_handle'][0], t['meta_handle'][0] + t['meta_handle'][1] + 5, 'metaindex'))
    regs.append((t['index_handle'][0], t['index_handle'][0] + t['index_handle'][1] + 5, 'index'))
    regs.append((len(data) - 48, len(data) - 8, 'footer_handles'))
    regs.append((len(data) - 8, len(data), 'footer_magic'))

    def f(off):
        for a, b, n in regs:
            if a <= off < b: return n
        return 'table_other'
    return f


def run_c11(tier, seed):
    prop = 'C11'
    t0 = time.time(); out = Outcome(prop); quick = tier == 'quick'; rng = random.Random(seed)
    lib = c.build_lib(); exe = c.build_driver('crash', lib)
    total = dict(databases=0, probes=0, distinct_outcomes=0, tv_states=0, per_region={})
    samples = []
    dbs = [(seed * 1000 + 1, 0x300 | 0x8), (seed * 1000 + 2, 0x400)] if quick else [(seed * 1000 + i, b) for i, b in enumerate([0x308, 0x400, 0x108, 0x200, 0xb08, 0x000])]
    for (wseed, bits) in dbs:
        if out.full(): break
        d = c.scratch('cor'); j = os.path.join(d, 'journal'); dbdir = os.path.join(d, 'db')
        p = c.sh([exe, 'record', str(wseed), dbdir, j, str(bits), '16', '1'], timeout=120, env={'CRASH_SMALL': '1'})
        if p.returncode != 0: raise Broken('corruption baseline build failed: %s' % p.stderr[-300:])
        batches = {}
        for text in marks_of(j):
            w = text.split(' ')
            if w[0] == 'begin': batches[int(w[1])] = dict(sync=int(w[2]), ops=parse_ops_desc(w[3] if len(w) > 3 else ''))
        nb = max(batches)
        bat = [dict(sync=batches[b]['sync'], ops=batches[b]['ops']) for b in range(1, nb + 1)]
        files = {}
        for fn in sorted(os.listdir(dbdir)):
            kind, num = di.classify(fn)
            if kind in ('table', 'log', 'manifest', 'current'):
                files[fn] = (kind, open(os.path.join(dbdir, fn), 'rb').read())
        # mutations
        muts = []
        for fn, (kind, data) in files.items():
            reg = table_regions(data) if kind == 'table' else (lambda off, k=kind: k)
            n = len(data)
            offs = list(range(n)) if not quick else sorted(set(rng.sample(range(n), min(n, 140)) + list(range(max(0, n - 48), n)) + list(range(0, min(n, 16)))))
            for off in offs:
                alts = [('bit', 1 << rng.randint(0, 7)), ('set', 0x00), ('set', 0xFF)] if quick else [('bit', 1 << b) for b in range(8)] + [('set', 0x00), ('set', 0xFF)]
                for a in alts: muts.append((fn, kind, reg(off), off, a[0], a[1]))
                if not quick or off % 7 == 0: muts.append((fn, kind, reg(off), off, 'trunc', 0))
                if off % 512 == 0: muts.append((fn, kind, reg(off), off, 'zero512', 0))

        def probe(m):
            fn, kind, region, off, alt, val = m
            dd = c.scratch('cp'); tgt = os.path.join(dd, 'db'); os.makedirs(tgt)
            for f2, (k2, data2) in files.items():
                dat = data2
                if f2 == fn:
                    b = bytearray(data2)
                    if alt == 'bit': b[off] ^= val
                    elif alt == 'set':
                        if b[off] == val: c.rmtree(dd); return None     # no change
                        b[off] = val
                    elif alt == 'trunc': b = b[:off]
                    elif alt == 'zero512':
                        if all(x == 0 for x in b[off:off + 512]): c.rmtree(dd); return None
                        b[off:off + 512] = b'\0' * len(b[off:off + 512])
                    dat = bytes(b)
                open(os.path.join(tgt, f2), 'wb').write(dat)
            outp = os.path.join(dd, 'o.json')
            pr = c.sh([exe, 'recover', tgt, outp, str(bits), '0'], timeout=60, env={'CRASH_PROBE': '1'})
            res = None
            if getattr(pr, 'timed_out', False): res = dict(hang=1)
            elif pr.returncode != 0: res = dict(crash=pr.returncode)
            else:
                try: res = json.load(open(outp))
                except Exception: res = dict(crash=-1)
            c.rmtree(dd)
            return m, res
        results = [r for r in c.pmap(probe, muts, c.NCPU) if r is not None]
        total['databases'] += 1; total['probes'] += len(results)
        lines = [dict(e='meta', batches=bat)]
        seen = set()
        for (fn, kind, region, off, alt, val), res in results:
            key = '%s/%s' % (region, alt); total['per_region'][key] = total['per_region'].get(key, 0) + 1
            if 'hang' in res or 'crash' in res:
                rd = c.replay_dir(prop, 'corrupt'); json.dump(dict(kind='corrupt', workload=dict(seed=wseed, bits=bits), file=fn, region=region, offset=off, alt=alt, val=val, why=res), open(os.path.join(rd, 'replay.json'), 'w'))
                out.violation('reading a database with %s damaged at offset %d (%s %s) %s' % (fn, off, alt, val, 'hung' if 'hang' in res else 'crashed'), rd, dict(kind='corrupt_abort'))
                continue
            ev = dict(e='probe', kind=kind, file=fn, region=region, off=off, alt=alt, rc=res.get('rc', 0), markers=res.get('markers', []), data=res.get('data', []),
                      status=res.get('status', 0), bad=res.get('bad', 0), gets=res.get('gets', []), bwd=res.get('bwd', []), bwdstatus=res.get('bwdstatus', 0))
            sig = json.dumps([kind, ev['rc'], ev['markers'], ev['data'], ev['status'], ev['bad'], ev['gets'], ev['bwd'], ev['bwdstatus']])
            if sig in seen: continue      # identical outcome vector: same verdict by construction
            seen.add(sig); lines.append(ev)
        total['distinct_outcomes'] += len(lines) - 1
        td = c.scratch('ctv'); tp = os.path.join(td, 't.ndjson')
        with open(tp, 'w') as f:
            for ln in lines: f.write(json.dumps(ln, separators=(',', ':')) + '\n')
        r = c.trace_validate('CorruptTrace', 'CorruptTrace.cfg', tp, timeout=1200, heap='4g', header_lines=1)
        total['tv_states'] += r['res'].distinct
        if not r['accepted']:
            bad = lines[r['prefix']] if r['prefix'] is not None and r['prefix'] < len(lines) else None
            rd = c.replay_dir(prop, 'corrupt'); shutil.copy(tp, os.path.join(rd, 'trace.ndjson'))
            json.dump(dict(kind='corrupt', workload=dict(seed=wseed, bits=bits), event=bad), open(os.path.join(rd, 'replay.json'), 'w'), indent=1)
            out.violation('CorruptTrace: wrong answer after damage: %s' % json.dumps(bad)[:400], rd, dict(kind='corrupt', file_kind=(bad or {}).get('kind')))
        if len(samples) < 2 and len(lines) > 5:
            samples.append(dict(files={k: len(v[1]) for k, v in files.items()}, probe=lines[len(lines) // 2]))
        c.rmtree(d); c.rmtree(td)
    rc = out.finish()
    cov = dict(evaluations=total['probes'], distinct_nontrivial=total['distinct_outcomes'],
               rule='one probe per (file, byte offset, alteration: bit flip / 0x00 / 0xFF / truncation / zeroed 512 B sector) of a closed database; distinct = distinct outcome vectors (open status, lookups, forward and backward scans) actually validated by TLC',
               samples=samples or [{}], states=max(1, total['tv_states']), transitions=max(1, total['tv_states']), traces_validated_against_impl=total['probes'], totals=total, exhaustive=not quick)
    c.write_evidence(prop, tier, seed, 'fault_enumeration', cov, time.time() - t0, violations=len(out.violations),
                     assumptions=['thin oracle: truth = fold of all batches of the cleanly closed database; an error status is always acceptable',
                                  'paranoid_checks and verify_checksums are on in every probe'])
    return rc


CHECKS['C11'] = run_c11
