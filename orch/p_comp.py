"""Component properties: C15 (log framing). C16/C17/C07 component layers are added below as they are built."""
import json, os, random, shutil, struct, sys, time
from . import common as c
from .common import Broken, log, Outcome
sys.path.insert(0, os.path.join(c.HARNESS, 'proj'))
import fmt

H = 7


def _vectors_small(B, rng, quick):
    offs = [0] + list(range(8, B))
    vs = []
    L = list(range(0, 2 * B + 10))
    for o in offs:
        for a in (L if not quick else L[::3] + [B - H - 1, B - H, B - H + 1, 2 * (B - H), 2 * (B - H) + 1]):
            vs.append((o, [a]))
    fam = [0, 1, 2, B - H - 1, B - H, B - H + 1, B, 2 * (B - H), 2 * (B - H) + 1, 3 * B + 5]
    for o in offs[::(3 if quick else 1)]:
        for a in fam:
            for b in fam:
                vs.append((o, [a, b]))
    for _ in range(150 if quick else 3000):
        vs.append((rng.choice(offs), [rng.choice(fam + L[:20]) for _ in range(rng.randint(3, 5))]))
    # records spanning three and more blocks, with neighbours (for the lost-block reads)
    for _ in range(60 if quick else 600):
        vs.append((rng.choice([0, 0, 8, B - 1]), [rng.choice([0, 3, B]), rng.randint(3 * B, 6 * B), rng.choice([1, B - H, 2 * B + 3]), rng.randint(2 * B, 4 * B)]))
    return vs


def _vectors_real(rng, quick):
    B = 32768
    offs = [0, 8, 9, 100, B - 8, B - 7, B - 6, B - 1]
    fam = [0, 1, 7, B - H - 101, B - H - 8, B - H - 7, B - H - 1, B - H, B - H + 1, 2 * (B - H), 2 * (B - H) + 1, 3 * B + 16]
    vs = []
    for o in offs:
        for a in fam:
            for b in (fam if not quick else fam[::2]):
                vs.append((o, [a, b, rng.choice([0, 5, B - H])]))
    for _ in range(20 if quick else 400):
        n = rng.randint(1, 6)
        vs.append((rng.choice(offs), [rng.choice([rng.randint(0, 300), rng.randint(0, 70000), rng.randint(0, 1 << 20) if not quick else rng.randint(0, 200000)]) for _ in range(n)]))
    return vs


def _pat(j, p, n):
    return (j * 37 + p * 11 + n) & 255


def _expected_bytes(off, lens, B):
    """Independent ENCODER: the bytes the format prescribes for this vector (filler + records)."""
    recs = []
    pre = b''
    if off > 0:
        n = off - H
        pre = fmt.encode_log([bytes(_pat(0, p, n) for p in range(n))], block=B)
    body = fmt.encode_log([bytes(_pat(j + 1, p, n) for p in range(n)) for j, n in enumerate(lens)], block=B, initial_offset=off)
    return pre + body


def logfmt_campaign(prop, out, B, vectors, cfg, quick, rng, stats, label):
    flags = ['-DLCDB_VERIF_SMALL_BLOCK=%d' % B] if B != 32768 else []
    lib = c.build_lib(extra_flags=flags); exe = c.build_driver('logfmt', lib, extra_flags=flags)
    d = c.scratch('lf')
    vp = os.path.join(d, 'vec.txt'); bp = os.path.join(d, 'out.bin')
    with open(vp, 'w') as f:
        for off, lens in vectors: f.write('%d %s\n' % (off, ' '.join(map(str, lens))))
    p = c.sh([exe, 'write', vp, bp], timeout=600)
    if p.returncode != 0:
        raise Broken('logfmt write failed: %s' % p.stderr[-500:])
    # read back the bytes, decode independently
    blobs = []
    with open(bp, 'rb') as f:
        while True:
            ln = f.readline()
            if not ln: break
            _, idx, off, n = ln.split(); n = int(n)
            blobs.append(f.read(n)); f.read(1)
    lines = []; tests = []
    nphys = 0
    for idx, ((off, lens), data) in enumerate(zip(vectors, blobs)):
        phys_all = fmt.physical_records(data, block=B)
        recs = [r for r in phys_all if r['kind'] == 'rec']
        trailers_zero = all(r['zero'] for r in phys_all if r['kind'] == 'trailer')
        torn = [r for r in phys_all if r['kind'] not in ('rec', 'trailer')]
        start_new = 0
        if off > 0:
            recs = recs[1:]      # the filler
        phys = []
        prev_end = off
        for r in recs:
            phys.append([r['off'] - prev_end, r['type'], r['len'], 1 if (r['crc_ok'] and r['fits']) else 0])
            prev_end = r['end']
        ev = dict(e='vec', idx=idx, off=off, lens=lens, phys=phys, total=len(data), trailers_zero=1 if (trailers_zero and not torn) else 0, cuts=[], dmg=[])
        # byte-for-byte agreement with the independent encoder
        ev['enc_equal'] = 1 if _expected_bytes(off, lens, B) == data else 0
        lines.append(ev); nphys += len(phys)
        # cuts: every byte for small blocks; boundaries for the real constants
        if B != 32768:
            cuts = list(range(off, len(data) + 1)) if (not quick or idx % 4 == 0) else sorted(set([off, len(data)] + [r['end'] for r in recs] + [r['end'] - 1 for r in recs] + [r['off'] + 3 for r in recs]))
        else:
            cs = set([off, len(data)])
            for r in recs:
                for x in (r['off'], r['off'] + 1, r['off'] + 6, r['off'] + 7, r['end'] - 1, r['end'], r['end'] + 1):
                    if off <= x <= len(data): cs.add(x)
            cuts = sorted(cs)
            if quick and len(cuts) > 12: cuts = sorted(rng.sample(cuts, 12))
        for cut in cuts: tests.append((idx, 'cut', cut, 0))
        # damage: crc / len / type / payload byte of physical records
        cand = list(enumerate(recs))
        if B == 32768 or quick:
            cand = cand if len(cand) <= 3 else rng.sample(cand, 3)
        if quick and idx % 3 != 0: cand = []
        for i, r in cand:
            for cls, pos in (('crc', r['off'] + rng.randint(0, 3)), ('len', r['off'] + 4 + rng.randint(0, 1)), ('type', r['off'] + 6), ('payload', r['off'] + 7 + rng.randint(0, max(0, r['len'] - 1)))):
                if cls == 'payload' and r['len'] == 0: continue
                x = rng.choice([1, 0x80, 0xff])
                kf = 1 if (cls == 'type' and r['len'] == 0 and (r['type'] ^ x) == 0) else 0
                tests.append((idx, 'flip', pos, x, i + 1, cls, kf))
        # an unknown record type with a valid checksum: that logical record is dropped as a whole (reported), nothing else
        if (not quick or idx % 2 == 1):
            ut = [(k, r) for k, r in enumerate(recs)]
            for i, r in (ut if len(ut) <= 2 else rng.sample(ut, 2)):
                tests.append((idx, 'utype', r['off'], rng.choice([5, 9, 200]), i + 1, 'unknowntype', 0))
        # a whole interior block reads back as zeros (a lost block): records with a fragment in it are dropped as a whole - and
        # reported, when the block interrupts a fragmented record; nothing is glued together from the fragments around it
        nblk = (len(data) + B - 1) // B
        if nblk >= 3 and (not quick or idx % 2 == 0):
            inner = [b for b in range(1, nblk - 1) if any(r['off'] == b * B for r in recs)]
            for b in (inner if len(inner) <= 3 else rng.sample(inner, 3)):
                i = [k for k, r in enumerate(recs) if r['off'] == b * B][0]
                tests.append((idx, 'zero', b * B, B, i + 1, 'zeroblock', 0))
    tp = os.path.join(d, 'tests.txt'); op = os.path.join(d, 'reads.ndjson')
    with open(tp, 'w') as f:
        for t in tests: f.write('%d %s %d %d\n' % (t[0], t[1], t[2], t[3]))
    p = c.sh([exe, 'read', bp, tp, op], timeout=900)
    if p.returncode != 0:
        raise Broken('logfmt read failed: %s' % p.stderr[-500:])
    with open(op) as f:
        for t, ln in zip(tests, f):
            r = json.loads(ln)
            ev = lines[t[0]]
            if t[1] == 'cut':
                ev['cuts'].append(dict(at=t[2], recs=r['recs'], drops=r['drops']))
            else:
                ev['dmg'].append(dict(phys=t[4], cls=t[5], pos=t[2], xor=t[3], zerotype=t[6], recs=r['recs'], drops=r['drops']))
                if t[6] and r['drops'] == 0: stats.setdefault('_kf_zero_type', []).append(dict(off=ev['off'], lens=ev['lens'], phys=t[4]))
    stats[label] = dict(vectors=len(vectors), physical_records=nphys, cuts=sum(len(e['cuts']) for e in lines), damaged_reads=sum(len(e['dmg']) for e in lines), block=B)
    # encoder agreement is decided here (bytes), the rest by TLC
    for ev in lines:
        if not ev['enc_equal'] and not out.full():
            rd = c.replay_dir(prop, 'enc'); json.dump(dict(kind='logfmt', block=B, vector=dict(off=ev['off'], lens=ev['lens']), why='bytes differ from the independent encoder'), open(os.path.join(rd, 'replay.json'), 'w'))
            out.violation('log bytes for off=%d lens=%s (block %d) differ from the independent encoder of the LevelDB format' % (ev['off'], ev['lens'], B), rd, dict(kind='logfmt_bytes'))
            break
    # validate with TLC in parallel chunks
    chunks = [lines[i::8] for i in range(8)]

    def tv(chunk):
        if not chunk: return None
        dd = c.scratch('lft'); tpth = os.path.join(dd, 't.ndjson')
        with open(tpth, 'w') as f:
            for e in chunk: f.write(json.dumps(e, separators=(',', ':')) + '\n')
        r = c.trace_validate('LogFmtTrace', cfg, tpth, timeout=1500, heap='4g')
        return r, chunk, tpth
    st = 0
    for res in c.pmap(tv, chunks, 8):
        if res is None: continue
        r, chunk, tpth = res
        st += r['res'].distinct
        if not r['accepted'] and not out.full():
            bad = chunk[r['prefix']] if r['prefix'] is not None and r['prefix'] < len(chunk) else None
            rd = c.replay_dir(prop, 'logfmt')
            shutil.copy(tpth, os.path.join(rd, 'trace.ndjson'))
            slim = None if bad is None else dict(off=bad['off'], lens=bad['lens'], phys=bad['phys'][:12], total=bad['total'])
            json.dump(dict(kind='logfmt', block=B, vector=slim, cfg=cfg), open(os.path.join(rd, 'replay.json'), 'w'), indent=1)
            out.violation('LogFmtTrace (block %d) rejects vector %s' % (B, json.dumps(slim)[:300]), rd, dict(kind='logfmt'))
    stats[label]['tv_states'] = st
    stats[label]['sample'] = dict(off=lines[len(lines) // 2]['off'], lens=lines[len(lines) // 2]['lens'], phys=lines[len(lines) // 2]['phys'][:8])
    c.rmtree(d)


def run_c15(tier, seed):
    prop = 'C15'
    t0 = time.time(); out = Outcome(prop); rng = random.Random(seed); quick = tier == 'quick'
    stats = {}
    Bs = 32
    logfmt_campaign(prop, out, Bs, _vectors_small(Bs, rng, quick), 'LogFmtTrace_small.cfg', quick, rng, stats, 'small_block')
    if not out.full():
        logfmt_campaign(prop, out, 32768, _vectors_real(rng, quick), 'LogFmtTrace_real.cfg', quick, rng, stats, 'real_constants')
    # CRC-32C: the decoder's table-driven implementation against the bitwise reference (supporting evidence)
    crc_n = 0
    for n in list(range(0, 200 if quick else 4097)) + [70000]:
        data = bytes(rng.getrandbits(8) for _ in range(n))
        for al in (0, 1, 3):
            if fmt.crc32c(data[al:]) != fmt.crc32c_bitwise(data[al:]): raise Broken('decoder CRC self-check failed')
            crc_n += 1
    stats['crc_selfcheck_buffers'] = crc_n
    # design-level model check of the framing rules over a complete small scope
    mcfg = 'LogFmtMC_quick.cfg' if quick else 'LogFmtMC.cfg'
    r = c.tlc('LogFmtMC', mcfg, workers=4, timeout=1500, heap='6g', deadlock=False)
    if r.error and not r.violated and 'Assumption' not in r.out:
        raise Broken('LogFmtMC failed: %s' % r.error)
    vecs = [p for p in r.printed if 'vectors' in p]
    stats['mc'] = dict(cfg=mcfg, vectors=vecs[0] if vecs else '?', wall_s=round(r.wall, 1))
    if 'Assumption' in r.out and 'is false' in r.out:
        rd = c.replay_dir(prop, 'mc'); open(os.path.join(rd, 'tlc.out'), 'w').write(r.out)
        out.violation('LogFmt.tla: a framing rule fails in the small-scope enumeration', rd, dict(kind='mc'))
    kf = stats.pop('_kf_zero_type', [])
    if kf:
        out.violation('an empty record whose type byte is altered to 0 is skipped with the rest of its block and no drop is reported', '-',
                      dict(kind='logfmt_zero_type'))
        stats['known_finding_zero_type_cases'] = len(kf)
    rc = out.finish()
    samples = [stats[k].pop('sample') for k in ('small_block', 'real_constants') if k in stats and 'sample' in stats[k]]
    tot = sum(stats[k].get('tv_states', 0) for k in ('small_block', 'real_constants') if k in stats)
    nvec = sum(stats[k].get('vectors', 0) for k in ('small_block', 'real_constants') if k in stats)
    cov = dict(states=max(1, tot), transitions=max(1, tot), traces_validated_against_impl=nvec, samples=samples or [{}], detail=stats, exhaustive=False)
    c.write_evidence(prop, tier, seed, 'model_checking', cov, time.time() - t0, violations=len(out.violations),
                     assumptions=['small-block runs use the same log_writer.c / log_reader.c compiled with LDB_BLOCK_SIZE=32 (guarded #ifdef in log_format.h)',
                                  'CRC-32C values are outside TLA+: covered because the independent decoder verifies every record (bitwise-checked implementation) and an independent encoder must produce identical bytes',
                                  'a damaged length field in the final block pointing past EOF is treated like a torn tail (silent), as the torn-tail clause requires'])
    return rc


def layers_for(prop):
    return []


CHECKS = {'C15': run_c15}


# =============================================================================================
# C17: version metadata - fold of the independently decoded MANIFEST = what was in effect; atomic switch
# =============================================================================================
CMP_NAMES = {0: 'leveldb.BytewiseComparator', 1: 'verif.reverse', 2: 'verif.lenfirst'}


def manifest_lines(evs, keepdir):
    """One trace line per closed database: decoded edits of the CURRENT manifest + reported + recovered."""
    cmpkind = 0
    for e in evs:
        if e['e'] == 'keys': cmpkind = e['cmp']; break
    out = []
    last_rep = None; start = None
    i = 0
    while i < len(evs):
        e = evs[i]
        if e['e'] == 'ApplyStart':
            start = e
        if e['e'] in ('VersionInstall', 'RecoverManifest'):
            # counters in effect when the edit was prepared (ApplyStart hook), not the edit's own fields
            nf, ls = (start['nextfile'], start['lastseq']) if (e['e'] == 'VersionInstall' and start is not None) else (e['enext'], e['eseq'])
            last_rep = dict(files=e['files'], log=e['log'], prevlog=e['prevlog'], nextfile=nf, lastseq=ls)
        if e['e'] == 'ManifestKept' and e['current'] == 1 and last_rep is not None:
            data = open(os.path.join(keepdir, e['file']), 'rb').read()
            edits = []
            for pl, end, first in fmt.logical_records(data):
                d = fmt.decode_edit(pl)
                edits.append(dict(cmp=d['comparator'] or '', log=-1 if d['log'] is None else d['log'], prevlog=-1 if d['prevlog'] is None else d['prevlog'],
                                  nextfile=-1 if d['nextfile'] is None else d['nextfile'], lastseq=-1 if d['lastseq'] is None else d['lastseq'],
                                  add=[[a[0], a[1], a[2]] for a in d['added']], **{'del': [[x[0], x[1]] for x in d['deleted']]}))
            line = dict(e='manifest', comparator=CMP_NAMES[cmpkind], edits=edits, reported=last_rep, bytes=len(data), name=e['name'])
            # the recovery that follows, if any
            for f in evs[i + 1:i + 40]:
                if f['e'] == 'RecoverManifest':
                    line['recovered'] = dict(files=f['files'], log=f['log'], nextfile=f['nextfile'], lastseq=f['lastseq']); break
                if f['e'] == 'Reset': break
            out.append(line)
        i += 1
    return out


def c17_fold_layer(prop, tier, seed, out):
    from . import seqrun as sr
    quick = tier == 'quick'
    lib = c.build_lib(); exe = c.build_driver('seq', lib)
    plan = [('deep', 4, 500), ('mixed', 3, 500), ('l0chain', 3, 400), ('bigval', 2, 200)] if quick else [('deep', 40, 1000), ('mixed', 40, 1000), ('l0chain', 40, 600), ('bigval', 20, 400)]
    execs = []
    for pi, (profile, runs, steps) in enumerate(plan):
        for i in range(runs): execs.append(sr.Exec(seed * 100000 + 70000 + pi * 1000 + i, steps, profile))
    # MANIFEST reuse across reopens, grown past a 32 KiB log block (hundreds of edits appended to a reused descriptor)
    for i in range(2 if quick else 8):
        execs.append(sr.Exec(seed * 100000 + 79000 + i, 3500, 'deep', bits=0x800 | (0x002 if i % 2 else 0)))
    sr.run_campaign(exe, execs)
    lines = []
    for ex in execs:
        if ex.rc == 4:
            rd = c.replay_dir(prop, 'edit'); json.dump(dict(kind='seq', exec=ex.desc(), why='reopen after a clean close failed'), open(os.path.join(rd, 'replay.json'), 'w'))
            out.violation('reopen after a clean close failed (the MANIFEST lcdb wrote cannot be replayed): %s' % ex.desc(), rd, dict(kind='reopen_failed'))
            continue
        if ex.rc != 0:
            raise Broken('seq driver failed in C17 fold layer (exit %s); see C01' % ex.rc)
        try:
            lines += manifest_lines(sr.load_events(ex.trace), os.path.join(ex.dir, 'db.keep'))
        except ValueError as ve:
            rd = c.replay_dir(prop, 'edit'); json.dump(dict(kind='seq', exec=ex.desc(), why=str(ve)), open(os.path.join(rd, 'replay.json'), 'w'))
            out.violation('a MANIFEST written by lcdb is not decodable by the independent decoder: %s' % ve, rd, dict(kind='edit_decode'))
    d = c.scratch('edt'); tp = os.path.join(d, 't.ndjson')
    with open(tp, 'w') as f:
        for ln in lines: f.write(json.dumps(ln, separators=(',', ':')) + '\n')
    st = dict(manifests=len(lines), edits=sum(len(l['edits']) for l in lines), executions=len(execs), states=0, transitions=0)
    if lines:
        r = c.trace_validate('EditTrace', 'EditTrace.cfg', tp, timeout=900)
        st['states'] = r['res'].distinct; st['transitions'] = r['res'].generated
        if not r['accepted']:
            bad = lines[r['prefix']] if r['prefix'] is not None and r['prefix'] < len(lines) else None
            rd = c.replay_dir(prop, 'edit'); shutil.copy(tp, os.path.join(rd, 'trace.ndjson'))
            slim = None if bad is None else dict(name=bad['name'], n_edits=len(bad['edits']), reported=bad['reported'], recovered=bad.get('recovered'), last_edit=bad['edits'][-1] if bad['edits'] else None)
            json.dump(dict(kind='edit', prop=prop, line=r['prefix'], event=slim), open(os.path.join(rd, 'replay.json'), 'w'), indent=1)
            out.violation('EditTrace: replaying the independently decoded MANIFEST does not reproduce what was in effect: %s' % json.dumps(slim)[:400], rd, dict(kind='edit_fold'))
        st['sample'] = dict(edits=lines[len(lines) // 2]['edits'][-2:], reported=lines[len(lines) // 2]['reported'])
    for ex in execs:
        if ex.dir: c.rmtree(ex.dir)
    c.rmtree(d)
    return {'EditTrace': st}


def run_c17(tier, seed):
    from . import p_disk
    p_disk.CFG['C17'] = ['ModelSyncedSurvive', 'RecOpenOk', 'RecNothingElse']
    def both(prop, tier, seed, out):
        cov = c17_fold_layer(prop, tier, seed, out)
        if not out.full(): cov.update(edit_codec_layer(prop, tier, seed, out))
        return cov
    return p_disk.run_disk('C17', tier, seed, extra=both)


CHECKS['C17'] = run_c17


# =============================================================================================
# C16: table files
# =============================================================================================
import sstable


def ikey(user, seq, typ):
    return user + struct.pack('<Q', (seq << 8) | typ)


def ikey_cmp_key(k):
    # bytewise user key ascending, then tag descending
    return (k[:-8], -struct.unpack('<Q', k[-8:])[0])


def gen_entries(rng, n, style):
    users = set()
    tries = 0
    while len(users) < max(1, n // 2) and tries < 20 * n + 100:
        tries += 1
        if style == 'prefix': u = b'commonprefix/' * rng.randint(1, 4) + bytes(rng.choice(b'abc') for _ in range(rng.randint(0, 3)))
        elif style == 'ff': u = b'\xff' * rng.randint(0, 5) + bytes([rng.choice([0, 1, 0xfe, 0xff])]) * rng.randint(0, 2)
        elif style == 'short': u = bytes(rng.choice([0, 1, 0x61, 0xfe, 0xff]) for _ in range(rng.randint(0, 3)))
        else: u = bytes(rng.getrandbits(8) for _ in range(rng.randint(0, 24)))
        users.add(u)
    if rng.random() < 0.5: users.add(b'')
    ents = []
    seq = 1
    for u in users:
        for _ in range(rng.choice([1, 1, 2, 3])):
            seq += rng.randint(1, 3)
            r = rng.random()
            vlen = 0 if r < 0.1 else rng.randint(1, 40) if r < 0.7 else rng.randint(100, 5000) if r < 0.97 else rng.randint(100000, 1 << 20)
            ents.append((ikey(u, seq, rng.choice([1, 1, 1, 0])), vlen, rng.randint(0, 255)))
    ents = ents[:n]
    ents.sort(key=lambda e: ikey_cmp_key(e[0]))
    return ents


def rank_table(all_keys):
    """Dense ranks (1-based) of every distinct key in one common internal-key order."""
    ks = sorted(set(ikey_cmp_key(k) for k in all_keys))
    return {k: i + 1 for i, k in enumerate(ks)}


def gen_value(vl, vs):
    """The value generator of harness/drv/table.c (fill_value)."""
    if vs >= 0:
        return bytes(((vs * 131 + i * 7) & 255) for i in range(vl))
    r = -vs - 1; P = vl - r if r <= vl else 0
    out = bytearray(((i % 16) * 13 + 1) & 255 for i in range(P))
    x = (12345 + r * 2654435761) & 0xFFFFFFFF
    for _ in range(vl - P):
        x = (x * 1103515245 + 12345) & 0xFFFFFFFF
        out.append((x >> 16) & 255)
    return bytes(out)


def literal_sweep_entries(rs, prefix):
    """One entry per block (value longer than the block size); the block's Snappy encoding ends in a literal run of r + a few bytes."""
    return [(ikey(b'lit%06d' % r, 7, 1), prefix + r, -(r + 1)) for r in rs]


def table_case(exe, d, idx, ents, opts, rng, quick):
    """Build one table with the real builder, decode it independently, run the real reader; return the trace line."""
    spec = os.path.join(d, 't%d.spec' % idx); tf = os.path.join(d, 't%d.ldb' % idx); res = os.path.join(d, 't%d.res' % idx)
    keys = [e[0] for e in ents]
    sorted_keys = [ikey_cmp_key(k) for k in keys]
    tests = []
    cand = []
    for k in keys:
        u = k[:-8]; tag = struct.unpack('<Q', k[-8:])[0]
        cand.append(k)
        cand.append(u + struct.pack('<Q', min(tag + 256, (1 << 64) - 1)))        # same user key, newer sequence: sorts just before
        cand.append(u + struct.pack('<Q', max(tag - 256, 0) if tag >= 256 else 0))  # same user key, older: just after
        cand.append(u + b'\x00' + struct.pack('<Q', (1 << 56) - 1 << 8 | 1))
    cand.append(b'' + struct.pack('<Q', ((1 << 56) - 1) << 8 | 1))
    cand.append(b'\xff' * 9 + struct.pack('<Q', 0))
    if quick and len(cand) > 120: cand = rng.sample(cand, 120)
    users = set(k[:-8] for k in keys)
    with open(spec, 'w') as f:
        f.write('%d %d %d %d %d\n' % (opts['block'], opts['restart'], opts['snappy'], opts['bloom'], opts['mmap']))
        for k, vl, vs in ents: f.write('E %s %d %d\n' % (k.hex(), vl, vs))
        f.write('TESTS\n')
        for t in cand: f.write('seek %s\n' % t.hex()); tests.append(('seek', t))
        for t in cand: f.write('get %s\n' % t.hex()); tests.append(('get', t))
        f.write('scan\n'); tests.append(('scan', None))
        f.write('walk %d %d\n' % (rng.randint(1, 1 << 30), 300)); tests.append(('walk', None))
    p = c.sh([exe, 'build', spec, tf, res], timeout=300)
    if p.returncode != 0:
        return dict(fail='table driver exit %s %s' % (p.returncode, p.stderr[-300:]))
    out = [json.loads(l) for l in open(res)]
    built, opened, results = out[0], out[1], out[2:]
    line = dict(e='table', n=len(ents), interval=opts['restart'], opts=opts, open_rc=opened['rc'], blocks=[], seps=[], seeks=[], gets=[],
                gets2=[], epos=[], euk=[], maxpos=0, scan=dict(n=0, fwd_ok=0, bwd_ok=0, st=-1), walk_bad=1, entries_equal=0, sorted=0, crc_ok=0, handles_tile=0, footer_ok=0, shared0=0, leveldb_equal=0, filter_ok=0)
    data = open(tf, 'rb').read()
    try:
        t = sstable.read_table(data)
    except (sstable.TableError, ValueError, IndexError) as ex:
        line['decode_error'] = str(ex)
        return dict(line=line)
    dec = [(k, v) for b in t['blocks'] for (k, v, s, o) in b['entries']]
    exp = [(k, gen_value(vl, vs)) for k, vl, vs in ents]
    line['entries_equal'] = 1 if dec == exp else 0
    line['sorted'] = 1 if all(ikey_cmp_key(dec[i][0]) < ikey_cmp_key(dec[i + 1][0]) for i in range(len(dec) - 1)) else 0
    line['crc_ok'] = 1 if (all(b['crc_ok'] for b in t['blocks']) and t['index_crc_ok'] and t['meta_crc_ok'] and (t['filter'] is None or t['filter']['crc_ok'])) else 0
    # handles tile the file: data blocks back to back (each + 5-byte trailer), then filter, metaindex, index, footer
    offs = [(b['offset'], b['size']) for b in t['blocks']]
    pos = 0; tile = True
    for o, s in offs:
        if o != pos: tile = False
        pos = o + s + 5
    if t['filter'] is not None:
        if t['filter']['offset'] != pos: tile = False
        pos = t['filter']['offset'] + t['filter']['size'] + 5
    if t['meta_handle'][0] != pos: tile = False
    pos = t['meta_handle'][0] + t['meta_handle'][1] + 5
    if t['index_handle'][0] != pos: tile = False
    pos = t['index_handle'][0] + t['index_handle'][1] + 5
    if pos + 48 != len(data): tile = False
    line['handles_tile'] = 1 if tile else 0
    line['footer_ok'] = 1 if t['footer_pad_zero'] and built['size'] == len(data) and built['entries'] == len(ents) else 0
    # blocks, restarts, separators in abstract positions
    ranks = rank_table(keys + cand + [b['separator'] for b in t['blocks']])
    pos_code = lambda _unused, x: ranks[ikey_cmp_key(x)]
    line['epos'] = [ranks[ikey_cmp_key(k)] for k in keys]; line['maxpos'] = len(ranks)
    ukid = {u: i + 1 for i, u in enumerate(sorted(users))}
    line['euk'] = [ukid[k[:-8]] for k in keys]
    e0 = 0; sh0 = True
    for b in t['blocks']:
        first = e0 + 1; last = e0 + len(b['entries'])
        off2idx = {o: first + i for i, (k, v, s, o) in enumerate(b['entries'])}
        rs = []
        for ro in b['restarts']:
            if ro not in off2idx: sh0 = False; continue
            rs.append(off2idx[ro])
            if b['entries'][off2idx[ro] - first][2] != 0: sh0 = False
        line['blocks'].append(dict(first=first, last=last, restarts=rs))
        line['seps'].append(pos_code(sorted_keys, b['separator']))
        e0 = last
    line['shared0'] = 1 if sh0 else 0
    # filter block
    fok = True
    if opts['bloom'] > 0:
        f = t['filter']
        if f is None: fok = False
        else:
            if any(f['offsets'][i] > f['offsets'][i + 1] for i in range(len(f['offsets']) - 1)): fok = False
            if f['base_lg'] != 11: fok = False
            if t['blocks'] and len(f['offsets']) < (t['blocks'][-1]['offset'] >> 11) + 1: fok = False
            for b in t['blocks']:
                fb = sstable.filter_for_offset(f, b['offset'])
                for (k, v, s, o) in b['entries']:
                    if fb is None or not sstable.bloom_may_match(fb, k[:-8]): fok = False   # built on USER keys; never rejects a present key
    else:
        if t['filter'] is not None: fok = False
    line['filter_ok'] = 1 if fok else 0
    # genuine LevelDB reads the same entries
    try:
        from . import ldbref
        le = ldbref.table_entries([tf], 0)[tf]
        mine = [(k[:-8], struct.unpack('<Q', k[-8:])[0] >> 8, struct.unpack('<Q', k[-8:])[0] & 255, len(v)) for k, v in dec]
        line['leveldb_equal'] = 1 if [(a, b, c_, d_) for (a, b, c_, d_, _) in le] == mine else 0
    except Exception as ex:
        line['leveldb_equal'] = 0; line['leveldb_error'] = str(ex)[:200]
    # real reader results
    vok = True
    for (kind, tk), r in zip(tests, results):
        if kind == 'seek':
            line['seeks'].append([pos_code(sorted_keys, tk), max(0, r['r'])]); vok = vok and r['vok'] == 1 and r['st'] == 0 and r['r'] != -1
        elif kind == 'get':
            line['gets'].append([pos_code(sorted_keys, tk), ukid.get(tk[:-8], 0), max(0, r['r'])]); vok = vok and r['vok'] == 1 and r['st'] == 0 and r['r'] != -1
        elif kind == 'scan':
            line['scan'] = dict(n=r['n'], fwd_ok=r['fwd_ok'], bwd_ok=r['bwd_ok'], st=r['st'])
        elif kind == 'walk':
            line['walk_bad'] = r['bad']
    if not vok: line['entries_equal'] = 0
    # the same file read by a reader configured with ANOTHER filter parameter (the table stores its own probe count)
    line['gets2'] = []
    if opts['bloom'] > 0 and keys:
        spec2 = os.path.join(d, 't%d.spec2' % idx); res2 = os.path.join(d, 't%d.res2' % idx)
        with open(spec2, 'w') as f:
            f.write('%d %d %d %d %d\n' % (opts['block'], opts['restart'], opts['snappy'], 16 if opts['bloom'] != 16 else 6, opts['mmap']))
            for k, vl, vs in ents: f.write('E %s %d %d\n' % (k.hex(), vl, vs))
            f.write('TESTS\n')
            for k in keys: f.write('get %s\n' % k.hex())
        p2 = c.sh([exe, 'read', spec2, tf, res2], timeout=300)
        if p2.returncode == 0:
            out2 = [json.loads(l) for l in open(res2)]
            for k, r in zip(keys, out2[1:]):
                line['gets2'].append([ranks[ikey_cmp_key(k)], max(0, r['r'])])
        else:
            line['gets2'].append([0, -1])
        for f in (spec2, res2):
            try: os.unlink(f)
            except OSError: pass
    for f in (spec, tf, res):
        try: os.unlink(f)
        except OSError: pass
    return dict(line=line, blocks=len(t['blocks']), bytes=len(data))


def run_c16(tier, seed):
    prop = 'C16'
    t0 = time.time(); out = Outcome(prop); rng = random.Random(seed); quick = tier == 'quick'
    lib = c.build_lib(); exe = c.build_driver('table', lib)
    from . import ldbref
    ldbref.build()
    d = c.scratch('tbl')
    cases = []
    styles = ['prefix', 'ff', 'short', 'random']
    for i in range(60 if quick else 1500):
        opts = dict(block=rng.choice([16, 64, 256, 1024, 4096, 65536]), restart=rng.choice([1, 2, 3, 16, 32]), snappy=rng.randint(0, 1),
                    bloom=rng.choice([0, 1, 10]), mmap=rng.randint(0, 3))
        n = rng.choice([0, 1, 2, 5, 17, 40, 90, 150]) if i % 7 else rng.choice([0, 1, 2])
        cases.append((i, gen_entries(rng, n, styles[i % 4]) if n else [], opts))
    # Snappy literal-length boundaries (60/61, 256/257, 65536/65537 bytes): every run length around them ends some block
    nb = len(cases)
    sweeps = [(list(range(30, 90)) + list(range(225, 300)), 6000, 4096)] if quick else [(list(range(1, 340)), 6000, 4096), (list(range(65480, 65560)), 24000, 4096)]
    for si, (rs, prefix, blk) in enumerate(sweeps):
        for part in range(0, len(rs), 45):
            cases.append((nb, literal_sweep_entries(rs[part:part + 45], prefix), dict(block=blk, restart=16, snappy=1, bloom=0, mmap=rng.randint(0, 3)))); nb += 1
    results = c.pmap(lambda cs: table_case(exe, d, cs[0], cs[1], cs[2], random.Random(seed * 7919 + cs[0]), quick), cases, c.NCPU)
    lines = []
    for cs, r in zip(cases, results):
        if 'fail' in r:
            rd = c.replay_dir(prop, 'table'); json.dump(dict(kind='table', why=r['fail'], opts=cs[2], n=len(cs[1])), open(os.path.join(rd, 'replay.json'), 'w'))
            out.violation('table build/read aborted: %s (opts %s, %d entries)' % (r['fail'], cs[2], len(cs[1])), rd, dict(kind='table_driver'))
            continue
        lines.append(r['line'])
    st = dict(tables=len(lines), entries=sum(l['n'] for l in lines), blocks=sum(len(l['blocks']) for l in lines), seeks=sum(len(l['seeks']) for l in lines),
              gets=sum(len(l['gets']) for l in lines), option_mixes=len(set(json.dumps(l['opts'], sort_keys=True) for l in lines)), states=0)
    chunks = [lines[i::8] for i in range(8)]

    def tv(chunk):
        if not chunk: return None
        dd = c.scratch('tblt'); tp = os.path.join(dd, 't.ndjson')
        with open(tp, 'w') as f:
            for e in chunk: f.write(json.dumps(e, separators=(',', ':')) + '\n')
        return c.trace_validate('TableTrace', 'TableTrace.cfg', tp, timeout=1500, heap='4g'), chunk, tp
    for res in c.pmap(tv, chunks, 8):
        if res is None: continue
        r, chunk, tp = res
        st['states'] += r['res'].distinct
        if not r['accepted'] and not out.full():
            bad = chunk[r['prefix']] if r['prefix'] is not None and r['prefix'] < len(chunk) else None
            rd = c.replay_dir(prop, 'table'); shutil.copy(tp, os.path.join(rd, 'trace.ndjson'))
            slim = None if bad is None else {k: v for k, v in bad.items() if k not in ('seeks', 'gets')}
            json.dump(dict(kind='table', prop=prop, event=slim), open(os.path.join(rd, 'replay.json'), 'w'), indent=1)
            out.violation('TableTrace rejects a table: %s' % json.dumps(slim)[:500], rd, dict(kind='table'))
    c.rmtree(d)
    sepst = sep_layer(prop, tier, seed, out) if not out.full() else {}
    st['sep'] = sepst.get('Sep', {})
    rc = out.finish()
    sample = None
    for l in lines:
        if 3 <= l['n'] <= 20:
            sample = {k: v for k, v in l.items() if k not in ('gets',)}; sample['seeks'] = sample['seeks'][:8]; break
    cov = dict(states=max(1, st['states']), transitions=max(1, st['states']), traces_validated_against_impl=len(lines), samples=[sample or {}], detail=st, exhaustive=False)
    c.write_evidence(prop, tier, seed, 'model_checking', cov, time.time() - t0, violations=len(out.violations),
                     assumptions=['table structure is decoded by an independent Python reader of the LevelDB table format (incl. Snappy decompression, CRC-32C, bloom hash) and cross-checked with genuine LevelDB',
                                  'Snappy / varint byte layouts are exercised end to end, not modelled in TLA+',
                                  'comparator: internal-key order over the bytewise user comparator'])
    return rc


CHECKS['C16'] = run_c16


# =============================================================================================
# Sep.tla: index-key shortening (C16)
# =============================================================================================
def sep_layer(prop, tier, seed, out):
    """SepMC: the transcribed separator functions keep the contract on every string of a small alphabet; SepTrace: the
    real functions keep it on every pair of strings (length <= 3 over {00,01,02,fe,ff} + random longer ones)."""
    import itertools, random
    quick = tier == 'quick'
    st = dict(states=0, transitions=0, executions=0)
    cfgp = os.path.join(c.SPEC, 'SepMC_run.cfg')
    txt = 'SPECIFICATION Spec\nCONSTANTS\n  Alphabet = {%s}\n  MaxLen = 3\n  Seqs = {1, 5}\n' % ('0, 1, 254, 255' if quick else '0, 1, 2, 254, 255')
    if not os.path.exists(cfgp) or open(cfgp).read() != txt: open(cfgp, 'w').write(txt)
    r = c.tlc('SepMC', 'SepMC_run.cfg', workers=4, timeout=1800, heap='6g', deadlock=False)
    if r.error:
        if 'Assumption' in r.out and 'is false' in r.out:
            rd = c.replay_dir(prop, 'mc'); open(os.path.join(rd, 'tlc.out'), 'w').write(r.out[-20000:])
            json.dump(dict(kind='mc', module='SepMC'), open(os.path.join(rd, 'replay.json'), 'w'))
            out.violation('Sep.tla: the transcribed separator functions break their contract', rd, dict(kind='mc'))
            return {'Sep': st}
        raise Broken('SepMC failed: %s' % r.error[:300])
    st['mc'] = dict(strings=sum((4 if quick else 5) ** n for n in range(4)), assumptions=5)
    lib = c.build_lib(); exe = c.build_driver('sep', lib)
    rng = random.Random(seed)
    alpha = [0, 1, 2, 254, 255]
    strs = [bytes(t) for n in range(0, 4) for t in itertools.product(alpha, repeat=n)]
    hx = lambda b: b.hex() if b else '-'
    d = c.scratch('sep'); vp = os.path.join(d, 'vec.txt'); n = 0
    with open(vp, 'w') as f:
        pairs = [(a, b) for a in strs for b in strs]
        if quick: pairs = rng.sample(pairs, 6000)
        for a, b in pairs: f.write('S %s %s\n' % (hx(a), hx(b))); n += 1
        for a in strs: f.write('U %s\n' % hx(a)); n += 1
        for _ in range(3000 if quick else 20000):
            a, b = rng.choice(strs), rng.choice(strs)
            f.write('IS %s %d %s %d\n' % (hx(a), rng.choice([1, 5, 9]), hx(b), rng.choice([1, 5, 9]))); n += 1
        for a in strs: f.write('IU %s %d\n' % (hx(a), rng.choice([1, 5]))); n += 1
        for _ in range(1500 if quick else 10000):      # longer keys with long common prefixes
            pre = bytes(rng.choice(alpha + [97, 98]) for _ in range(rng.randint(0, 12)))
            a = pre + bytes(rng.choice(alpha + [97]) for _ in range(rng.randint(0, 4))); b = pre + bytes(rng.choice(alpha + [98]) for _ in range(rng.randint(0, 4)))
            f.write('S %s %s\n' % (hx(a), hx(b))); f.write('IS %s %d %s %d\n' % (hx(a), 7, hx(b), 3)); n += 2
    tp = os.path.join(d, 'sep.ndjson')
    p = c.sh([exe, vp, tp], timeout=300)
    if p.returncode != 0:
        p2 = c.sh([exe, vp, tp], timeout=300)
        if p2.returncode == 0: raise Broken('sep driver failure not reproducible')
        rd = c.replay_dir(prop, 'sep'); shutil.copy(vp, os.path.join(rd, 'vectors.txt'))
        json.dump(dict(kind='sep', why='driver exit %s' % p.returncode, stderr=(p.stderr or '')[-500:]), open(os.path.join(rd, 'replay.json'), 'w'))
        out.violation('the real separator functions abort on generated vectors (exit %s)' % p.returncode, rd, dict(kind='sep_crash'))
        c.rmtree(d); return {'Sep': st}
    r = c.trace_validate('SepTrace', 'SepTrace.cfg', tp, timeout=1500, heap='4g')
    st['states'] = r['res'].distinct; st['transitions'] = r['res'].generated; st['executions'] = 1; st['vectors'] = n
    if not r['accepted']:
        lines = open(tp).read().split('\n')
        bad = lines[r['prefix']] if r['prefix'] is not None and r['prefix'] < len(lines) else None
        rd = c.replay_dir(prop, 'sep'); shutil.copy(tp, os.path.join(rd, 'trace.ndjson'))
        json.dump(dict(kind='sep', line=r['prefix'], event=bad), open(os.path.join(rd, 'replay.json'), 'w'), indent=1)
        out.violation('index-key shortening breaks its contract (start <= separator < limit / key <= successor): %s' % (bad or '')[:300], rd, dict(kind='sep'))
    c.rmtree(d)
    return {'Sep': st}


# =============================================================================================
# version-edit encoding on boundary values (C17)
# =============================================================================================
def edit_codec_layer(prop, tier, seed, out):
    import random
    quick = tier == 'quick'
    rng = random.Random(seed * 77 + 5)
    lib = c.build_lib(); exe = c.build_driver('edit', lib)
    B = [0, 1, 127, 128, 129, 16383, 16384, 2 ** 21 - 1, 2 ** 21, 2 ** 28 - 1, 2 ** 28, 2 ** 31 - 1, 2 ** 31, 2 ** 32 - 1, 2 ** 32, 2 ** 35, 2 ** 42 - 1, 2 ** 49, 2 ** 56 - 1, 2 ** 56, 2 ** 63 - 1, 2 ** 63, 2 ** 64 - 1]
    def num(): return rng.choice(B) if rng.random() < 0.8 else rng.getrandbits(rng.choice([7, 14, 33, 57, 64]))
    def ikey():
        u = bytes(rng.choice([0, 1, 0x61, 0x7f, 0x80, 0xff]) for _ in range(rng.choice([0, 1, 2, 7, 8, 9, 127, 128, 129, 300])))
        return u + (((min(num(), 2 ** 56 - 1)) << 8) | rng.choice([0, 1])).to_bytes(8, 'little')
    vecs = []
    for i in range(400 if quick else 5000):
        e = dict(comparator=None, log=None, prevlog=None, nextfile=None, lastseq=None, compact=[], deleted=[], added=[])
        if rng.random() < 0.3: e['comparator'] = ''.join(rng.choice('abcXYZ.-_') for _ in range(rng.choice([0, 1, 26, 127, 128, 200])))
        for f in ('log', 'prevlog', 'nextfile', 'lastseq'):
            if rng.random() < 0.6: e[f] = num() if f != 'lastseq' else min(num(), 2 ** 56 - 1)
        for _ in range(rng.choice([0, 0, 1, 3])): e['compact'].append((rng.randrange(7), ikey()))
        dl = set()
        for _ in range(rng.choice([0, 1, 2, 5])): dl.add((rng.randrange(7), num()))
        e['deleted'] = sorted(dl)
        for _ in range(rng.choice([0, 1, 2, 4])): e['added'].append((rng.randrange(7), num(), num(), ikey(), ikey()))
        vecs.append(e)
    d = c.scratch('edc'); vp = os.path.join(d, 'vec.txt'); op = os.path.join(d, 'out.txt')
    hx = lambda b: b.hex() if b else '-'
    with open(vp, 'w') as f:
        for e in vecs:
            f.write('E\n')
            if e['comparator'] is not None: f.write('c %s\n' % hx(e['comparator'].encode('latin1')))
            for tag, k in (('l', 'log'), ('p', 'prevlog'), ('n', 'nextfile'), ('s', 'lastseq')):
                if e[k] is not None: f.write('%s %d\n' % (tag, e[k]))
            for lv, k in e['compact']: f.write('P %d %s\n' % (lv, hx(k)))
            for lv, n in e['deleted']: f.write('D %d %d\n' % (lv, n))
            for lv, n, sz, sm, lg in e['added']: f.write('A %d %d %d %s %s\n' % (lv, n, sz, hx(sm), hx(lg)))
            f.write('X\n')
            f.write('I %s\n' % hx(fmt.encode_edit(e)))
    p = c.sh([exe, vp, op], timeout=300)
    if p.returncode != 0:
        p2 = c.sh([exe, vp, op], timeout=300)
        if p2.returncode == 0: raise Broken('edit driver failure not reproducible')
        rd = c.replay_dir(prop, 'codec'); shutil.copy(vp, os.path.join(rd, 'vectors.txt'))
        json.dump(dict(kind='codec', why='driver exit %s' % p.returncode, stderr=(p.stderr or '')[-400:]), open(os.path.join(rd, 'replay.json'), 'w'))
        out.violation('version-edit export / import aborts on boundary values (exit %s)' % p.returncode, rd, dict(kind='codec_crash'))
        c.rmtree(d); return {'EditCodec': dict(states=0, transitions=0, executions=0)}
    res = [l.split(' ') for l in open(op).read().split('\n') if l]
    def norm(e):
        # a compact pointer set twice for a level keeps the last one in lcdb's edit? no: pointers are a list, kept as written
        return dict(comparator=e['comparator'] if e['comparator'] is not None else '<none>',
                    nums=[str(e[k]) if e[k] is not None else '-' for k in ('log', 'prevlog', 'nextfile', 'lastseq')],
                    compact=[[lv, hx(k)] for lv, k in e['compact']], deleted=[[lv, str(n)] for lv, n in e['deleted']],
                    added=[[lv, str(n), str(sz), hx(sm), hx(lg)] for lv, n, sz, sm, lg in e['added']])
    lines = []
    if len(res) != 3 * len(vecs): raise Broken('edit driver output has %d lines for %d vectors' % (len(res), len(vecs)))
    for i, e in enumerate(vecs):
        b, r, j = res[3 * i], res[3 * i + 1], res[3 * i + 2]
        raw = bytes.fromhex(b[1]) if b[1] != '-' else b''
        try:
            got = norm(fmt.decode_edit(raw))
        except Exception as ex:
            got = dict(error=str(ex))
        foreign = hx(fmt.encode_edit(e))
        lines.append(dict(e='codec', want=norm(e), got=got, bytes=b[1], reimport_ok=int(r[1]), reexport=r[2], foreign=foreign, foreign_ok=int(j[1]), foreign_back=j[2]))
    tp = os.path.join(d, 'codec.ndjson')
    with open(tp, 'w') as f:
        for ln in lines: f.write(json.dumps(ln, separators=(',', ':')) + '\n')
    r = c.trace_validate('EditTrace', 'EditTrace.cfg', tp, timeout=900)
    st = dict(states=r['res'].distinct, transitions=r['res'].generated, executions=1, vectors=len(vecs))
    if not r['accepted']:
        bad = lines[r['prefix']] if r['prefix'] is not None and r['prefix'] < len(lines) else None
        rd = c.replay_dir(prop, 'codec'); shutil.copy(tp, os.path.join(rd, 'trace.ndjson')); shutil.copy(vp, os.path.join(rd, 'vectors.txt'))
        why = None
        if bad:
            why = 'decoded edit differs from the edit built' if bad['got'] != bad['want'] else 'import of lcdb\'s own bytes fails or changes them' if (bad['reimport_ok'] != 1 or bad['reexport'] != bad['bytes']) else 'bytes of the independent encoder are refused or changed'
        json.dump(dict(kind='codec', line=r['prefix'], why=why, event=bad), open(os.path.join(rd, 'replay.json'), 'w'), indent=1)
        out.violation('version-edit encoding is not exact on boundary values: %s: %s' % (why, json.dumps(bad)[:300]), rd, dict(kind='codec'))
    c.rmtree(d)
    return {'EditCodec': st}
