"""Component properties: C15 (log framing). C16/C17/C07 component layers are added below as they are built."""
import json, os, random, shutil, struct, sys, time
from . import common as c
from .common import Broken, log, Outcome
sys.path.insert(0, os.path.join(c.HARNESS, 'proj'))
import fmt

H = 7


def _vectors_small(B, rng, quick):
    offs = [0] + list(range(8, B))
    vs = []
    L = list(range(0, 2 * B + 10))
    for o in offs:
        for a in (L if not quick else L[::3] + [B - H - 1, B - H, B - H + 1, 2 * (B - H), 2 * (B - H) + 1]):
            vs.append((o, [a]))
    fam = [0, 1, 2, B - H - 1, B - H, B - H + 1, B, 2 * (B - H), 2 * (B - H) + 1, 3 * B + 5]
    for o in offs[::(3 if quick else 1)]:
        for a in fam:
            for b in fam:
                vs.append((o, [a, b]))
    for _ in range(150 if quick else 3000):
        vs.append((rng.choice(offs), [rng.choice(fam + L[:20]) for _ in range(rng.randint(3, 5))]))
    return vs


def _vectors_real(rng, quick):
    B = 32768
    offs = [0, 8, 9, 100, B - 8, B - 7, B - 6, B - 1]
    fam = [0, 1, 7, B - H - 101, B - H - 8, B - H - 7, B - H - 1, B - H, B - H + 1, 2 * (B - H), 2 * (B - H) + 1, 3 * B + 16]
    vs = []
    for o in offs:
        for a in fam:
            for b in (fam if not quick else fam[::2]):
                vs.append((o, [a, b, rng.choice([0, 5, B - H])]))
    for _ in range(20 if quick else 400):
        n = rng.randint(1, 6)
        vs.append((rng.choice(offs), [rng.choice([rng.randint(0, 300), rng.randint(0, 70000), rng.randint(0, 1 << 20) if not quick else rng.randint(0, 200000)]) for _ in range(n)]))
    return vs


def _pat(j, p, n):
    return (j * 37 + p * 11 + n) & 255


def _expected_bytes(off, lens, B):
    """Independent ENCODER: the bytes the format prescribes for this vector (filler + records)."""
    recs = []
    pre = b''
    if off > 0:
        n = off - H
        pre = fmt.encode_log([bytes(_pat(0, p, n) for p in range(n))], block=B)
    body = fmt.encode_log([bytes(_pat(j + 1, p, n) for p in range(n)) for j, n in enumerate(lens)], block=B, initial_offset=off)
    return pre + body


def logfmt_campaign(prop, out, B, vectors, cfg, quick, rng, stats, label):
    flags = ['-DLCDB_VERIF_SMALL_BLOCK=%d' % B] if B != 32768 else []
    lib = c.build_lib(extra_flags=flags); exe = c.build_driver('logfmt', lib, extra_flags=flags)
    d = c.scratch('lf')
    vp = os.path.join(d, 'vec.txt'); bp = os.path.join(d, 'out.bin')
    with open(vp, 'w') as f:
        for off, lens in vectors: f.write('%d %s\n' % (off, ' '.join(map(str, lens))))
    p = c.sh([exe, 'write', vp, bp], timeout=600)
    if p.returncode != 0:
        raise Broken('logfmt write failed: %s' % p.stderr[-500:])
    # read back the bytes, decode independently
    blobs = []
    with open(bp, 'rb') as f:
        while True:
            ln = f.readline()
            if not ln: break
            _, idx, off, n = ln.split(); n = int(n)
            blobs.append(f.read(n)); f.read(1)
    lines = []; tests = []
    nphys = 0
    for idx, ((off, lens), data) in enumerate(zip(vectors, blobs)):
        phys_all = fmt.physical_records(data, block=B)
        recs = [r for r in phys_all if r['kind'] == 'rec']
        trailers_zero = all(r['zero'] for r in phys_all if r['kind'] == 'trailer')
        torn = [r for r in phys_all if r['kind'] not in ('rec', 'trailer')]
        start_new = 0
        if off > 0:
            recs = recs[1:]      # the filler
        phys = []
        prev_end = off
        for r in recs:
            phys.append([r['off'] - prev_end, r['type'], r['len'], 1 if (r['crc_ok'] and r['fits']) else 0])
            prev_end = r['end']
        ev = dict(e='vec', idx=idx, off=off, lens=lens, phys=phys, total=len(data), trailers_zero=1 if (trailers_zero and not torn) else 0, cuts=[], dmg=[])
        # byte-for-byte agreement with the independent encoder
        ev['enc_equal'] = 1 if _expected_bytes(off, lens, B) == data else 0
        lines.append(ev); nphys += len(phys)
        # cuts: every byte for small blocks; boundaries for the real constants
        if B != 32768:
            cuts = list(range(off, len(data) + 1)) if (not quick or idx % 4 == 0) else sorted(set([off, len(data)] + [r['end'] for r in recs] + [r['end'] - 1 for r in recs] + [r['off'] + 3 for r in recs]))
        else:
            cs = set([off, len(data)])
            for r in recs:
                for x in (r['off'], r['off'] + 1, r['off'] + 6, r['off'] + 7, r['end'] - 1, r['end'], r['end'] + 1):
                    if off <= x <= len(data): cs.add(x)
            cuts = sorted(cs)
            if quick and len(cuts) > 12: cuts = sorted(rng.sample(cuts, 12))
        for cut in cuts: tests.append((idx, 'cut', cut, 0))
        # damage: crc / len / type / payload byte of physical records
        cand = list(enumerate(recs))
        if B == 32768 or quick:
            cand = cand if len(cand) <= 3 else rng.sample(cand, 3)
        if quick and idx % 3 != 0: cand = []
        for i, r in cand:
            for cls, pos in (('crc', r['off'] + rng.randint(0, 3)), ('len', r['off'] + 4 + rng.randint(0, 1)), ('type', r['off'] + 6), ('payload', r['off'] + 7 + rng.randint(0, max(0, r['len'] - 1)))):
                if cls == 'payload' and r['len'] == 0: continue
                x = rng.choice([1, 0x80, 0xff])
                kf = 1 if (cls == 'type' and r['len'] == 0 and (r['type'] ^ x) == 0) else 0
                tests.append((idx, 'flip', pos, x, i + 1, cls, kf))
    tp = os.path.join(d, 'tests.txt'); op = os.path.join(d, 'reads.ndjson')
    with open(tp, 'w') as f:
        for t in tests: f.write('%d %s %d %d\n' % (t[0], t[1], t[2], t[3]))
    p = c.sh([exe, 'read', bp, tp, op], timeout=900)
    if p.returncode != 0:
        raise Broken('logfmt read failed: %s' % p.stderr[-500:])
    with open(op) as f:
        for t, ln in zip(tests, f):
            r = json.loads(ln)
            ev = lines[t[0]]
            if t[1] == 'cut':
                ev['cuts'].append(dict(at=t[2], recs=r['recs'], drops=r['drops']))
            else:
                ev['dmg'].append(dict(phys=t[4], cls=t[5], pos=t[2], xor=t[3], zerotype=t[6], recs=r['recs'], drops=r['drops']))
                if t[6] and r['drops'] == 0: stats.setdefault('_kf_zero_type', []).append(dict(off=ev['off'], lens=ev['lens'], phys=t[4]))
    stats[label] = dict(vectors=len(vectors), physical_records=nphys, cuts=sum(len(e['cuts']) for e in lines), damaged_reads=sum(len(e['dmg']) for e in lines), block=B)
    # encoder agreement is decided here (bytes), the rest by TLC
    for ev in lines:
        if not ev['enc_equal'] and not out.full():
            rd = c.replay_dir(prop, 'enc'); json.dump(dict(kind='logfmt', block=B, vector=dict(off=ev['off'], lens=ev['lens']), why='bytes differ from the independent encoder'), open(os.path.join(rd, 'replay.json'), 'w'))
            out.violation('log bytes for off=%d lens=%s (block %d) differ from the independent encoder of the LevelDB format' % (ev['off'], ev['lens'], B), rd, dict(kind='logfmt_bytes'))
            break
    # validate with TLC in parallel chunks
    chunks = [lines[i::8] for i in range(8)]

    def tv(chunk):
        if not chunk: return None
        dd = c.scratch('lft'); tpth = os.path.join(dd, 't.ndjson')
        with open(tpth, 'w') as f:
            for e in chunk: f.write(json.dumps(e, separators=(',', ':')) + '\n')
        r = c.trace_validate('LogFmtTrace', cfg, tpth, timeout=1500, heap='4g')
        return r, chunk, tpth
    st = 0
    for res in c.pmap(tv, chunks, 8):
        if res is None: continue
        r, chunk, tpth = res
        st += r['res'].distinct
        if not r['accepted'] and not out.full():
            bad = chunk[r['prefix']] if r['prefix'] is not None and r['prefix'] < len(chunk) else None
            rd = c.replay_dir(prop, 'logfmt')
            shutil.copy(tpth, os.path.join(rd, 'trace.ndjson'))
            slim = None if bad is None else dict(off=bad['off'], lens=bad['lens'], phys=bad['phys'][:12], total=bad['total'])
            json.dump(dict(kind='logfmt', block=B, vector=slim, cfg=cfg), open(os.path.join(rd, 'replay.json'), 'w'), indent=1)
            out.violation('LogFmtTrace (block %d) rejects vector %s' % (B, json.dumps(slim)[:300]), rd, dict(kind='logfmt'))
    stats[label]['tv_states'] = st
    stats[label]['sample'] = dict(off=lines[len(lines) // 2]['off'], lens=lines[len(lines) // 2]['lens'], phys=lines[len(lines) // 2]['phys'][:8])
    c.rmtree(d)


def run_c15(tier, seed):
    prop = 'C15'
    t0 = time.time(); out = Outcome(prop); rng = random.Random(seed); quick = tier == 'quick'
    stats = {}
    Bs = 32
    logfmt_campaign(prop, out, Bs, _vectors_small(Bs, rng, quick), 'LogFmtTrace_small.cfg', quick, rng, stats, 'small_block')
    if not out.full():
        logfmt_campaign(prop, out, 32768, _vectors_real(rng, quick), 'LogFmtTrace_real.cfg', quick, rng, stats, 'real_constants')
    # CRC-32C: the decoder's table-driven implementation against the bitwise reference (supporting evidence)
    crc_n = 0
    for n in list(range(0, 200 if quick else 4097)) + [70000]:
        data = bytes(rng.getrandbits(8) for _ in range(n))
        for al in (0, 1, 3):
            if fmt.crc32c(data[al:]) != fmt.crc32c_bitwise(data[al:]): raise Broken('decoder CRC self-check failed')
            crc_n += 1
    stats['crc_selfcheck_buffers'] = crc_n
    # design-level model check of the framing rules over a complete small scope
    mcfg = 'LogFmtMC_quick.cfg' if quick else 'LogFmtMC.cfg'
    r = c.tlc('LogFmtMC', mcfg, workers=4, timeout=1500, heap='6g', deadlock=False)
    if r.error and not r.violated and 'Assumption' not in r.out:
        raise Broken('LogFmtMC failed: %s' % r.error)
    vecs = [p for p in r.printed if 'vectors' in p]
    stats['mc'] = dict(cfg=mcfg, vectors=vecs[0] if vecs else '?', wall_s=round(r.wall, 1))
    if 'Assumption' in r.out and 'is false' in r.out:
        rd = c.replay_dir(prop, 'mc'); open(os.path.join(rd, 'tlc.out'), 'w').write(r.out)
        out.violation('LogFmt.tla: a framing rule fails in the small-scope enumeration', rd, dict(kind='mc'))
    kf = stats.pop('_kf_zero_type', [])
    if kf:
        out.violation('an empty record whose type byte is altered to 0 is skipped with the rest of its block and no drop is reported', '-',
                      dict(kind='logfmt_zero_type'))
        stats['known_finding_zero_type_cases'] = len(kf)
    rc = out.finish()
    samples = [stats[k].pop('sample') for k in ('small_block', 'real_constants') if k in stats and 'sample' in stats[k]]
    tot = sum(stats[k].get('tv_states', 0) for k in ('small_block', 'real_constants') if k in stats)
    nvec = sum(stats[k].get('vectors', 0) for k in ('small_block', 'real_constants') if k in stats)
    cov = dict(states=max(1, tot), transitions=max(1, tot), traces_validated_against_impl=nvec, samples=samples or [{}], detail=stats, exhaustive=False)
    c.write_evidence(prop, tier, seed, 'model_checking', cov, time.time() - t0, violations=len(out.violations),
                     assumptions=['small-block runs use the same log_writer.c / log_reader.c compiled with LDB_BLOCK_SIZE=32 (guarded #ifdef in log_format.h)',
                                  'CRC-32C values are outside TLA+: covered because the independent decoder verifies every record (bitwise-checked implementation) and an independent encoder must produce identical bytes',
                                  'a damaged length field in the final block pointing past EOF is treated like a torn tail (silent), as the torn-tail clause requires'])
    return rc


def layers_for(prop):
    return []


CHECKS = {'C15': run_c15}


# =============================================================================================
# C17: version metadata - fold of the independently decoded MANIFEST = what was in effect; atomic switch
# =============================================================================================
CMP_NAMES = {0: 'leveldb.BytewiseComparator', 1: 'verif.reverse', 2: 'verif.lenfirst'}


def manifest_lines(evs, keepdir):
    """One trace line per closed database: decoded edits of the CURRENT manifest + reported + recovered."""
    cmpkind = 0
    for e in evs:
        if e['e'] == 'keys': cmpkind = e['cmp']; break
    out = []
    last_rep = None; start = None
    i = 0
    while i < len(evs):
        e = evs[i]
        if e['e'] == 'ApplyStart':
            start = e
        if e['e'] in ('VersionInstall', 'RecoverManifest'):
            # counters in effect when the edit was prepared (ApplyStart hook), not the edit's own fields
            nf, ls = (start['nextfile'], start['lastseq']) if (e['e'] == 'VersionInstall' and start is not None) else (e['enext'], e['eseq'])
            last_rep = dict(files=e['files'], log=e['log'], prevlog=e['prevlog'], nextfile=nf, lastseq=ls)
        if e['e'] == 'ManifestKept' and e['current'] == 1 and last_rep is not None:
            data = open(os.path.join(keepdir, e['file']), 'rb').read()
            edits = []
            for pl, end, first in fmt.logical_records(data):
                d = fmt.decode_edit(pl)
                edits.append(dict(cmp=d['comparator'] or '', log=-1 if d['log'] is None else d['log'], prevlog=-1 if d['prevlog'] is None else d['prevlog'],
                                  nextfile=-1 if d['nextfile'] is None else d['nextfile'], lastseq=-1 if d['lastseq'] is None else d['lastseq'],
                                  add=[[a[0], a[1], a[2]] for a in d['added']], **{'del': [[x[0], x[1]] for x in d['deleted']]}))
            line = dict(e='manifest', comparator=CMP_NAMES[cmpkind], edits=edits, reported=last_rep, bytes=len(data), name=e['name'])
            # the recovery that follows, if any
            for f in evs[i + 1:i + 40]:
                if f['e'] == 'RecoverManifest':
                    line['recovered'] = dict(files=f['files'], log=f['log'], nextfile=f['nextfile'], lastseq=f['lastseq']); break
                if f['e'] == 'Reset': break
            out.append(line)
        i += 1
    return out


def c17_fold_layer(prop, tier, seed, out):
    from . import seqrun as sr
    quick = tier == 'quick'
    lib = c.build_lib(); exe = c.build_driver('seq', lib)
    plan = [('deep', 4, 500), ('mixed', 3, 500), ('l0chain', 3, 400), ('bigval', 2, 200)] if quick else [('deep', 40, 1000), ('mixed', 40, 1000), ('l0chain', 40, 600), ('bigval', 20, 400)]
    execs = []
    for pi, (profile, runs, steps) in enumerate(plan):
        for i in range(runs): execs.append(sr.Exec(seed * 100000 + 70000 + pi * 1000 + i, steps, profile))
    sr.run_campaign(exe, execs)
    lines = []
    for ex in execs:
        if ex.rc != 0:
            raise Broken('seq driver failed in C17 fold layer (exit %s); see C01' % ex.rc)
        try:
            lines += manifest_lines(sr.load_events(ex.trace), os.path.join(ex.dir, 'db.keep'))
        except ValueError as ve:
            rd = c.replay_dir(prop, 'edit'); json.dump(dict(kind='seq', exec=ex.desc(), why=str(ve)), open(os.path.join(rd, 'replay.json'), 'w'))
            out.violation('a MANIFEST written by lcdb is not decodable by the independent decoder: %s' % ve, rd, dict(kind='edit_decode'))
    d = c.scratch('edt'); tp = os.path.join(d, 't.ndjson')
    with open(tp, 'w') as f:
        for ln in lines: f.write(json.dumps(ln, separators=(',', ':')) + '\n')
    st = dict(manifests=len(lines), edits=sum(len(l['edits']) for l in lines), executions=len(execs), states=0, transitions=0)
    if lines:
        r = c.trace_validate('EditTrace', 'EditTrace.cfg', tp, timeout=900)
        st['states'] = r['res'].distinct; st['transitions'] = r['res'].generated
        if not r['accepted']:
            bad = lines[r['prefix']] if r['prefix'] is not None and r['prefix'] < len(lines) else None
            rd = c.replay_dir(prop, 'edit'); shutil.copy(tp, os.path.join(rd, 'trace.ndjson'))
            slim = None if bad is None else dict(name=bad['name'], n_edits=len(bad['edits']), reported=bad['reported'], recovered=bad.get('recovered'), last_edit=bad['edits'][-1] if bad['edits'] else None)
            json.dump(dict(kind='edit', prop=prop, line=r['prefix'], event=slim), open(os.path.join(rd, 'replay.json'), 'w'), indent=1)
            out.violation('EditTrace: replaying the independently decoded MANIFEST does not reproduce what was in effect: %s' % json.dumps(slim)[:400], rd, dict(kind='edit_fold'))
        st['sample'] = dict(edits=lines[len(lines) // 2]['edits'][-2:], reported=lines[len(lines) // 2]['reported'])
    for ex in execs:
        if ex.dir: c.rmtree(ex.dir)
    c.rmtree(d)
    return {'EditTrace': st}


def run_c17(tier, seed):
    from . import p_disk
    p_disk.CFG['C17'] = ['ModelSyncedSurvive', 'RecOpenOk', 'RecNothingElse']
    return p_disk.run_disk('C17', tier, seed, extra=c17_fold_layer)


CHECKS['C17'] = run_c17
