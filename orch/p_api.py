"""C01 / C06 / C07: API-level trace validation against Kv (KvTrace.tla), plus the design-level model checks
(Lsm.tla for C01/C06, Iter.tla for C07) and the structure layer (LsmTrace.tla) when available."""
import json, os, time, shutil
from . import common as c
from . import seqrun as sr
from .common import Broken, log, Outcome

READS_CUR = {'get', 'has'}


def _keep_c01(e):
    n = e['e']
    if n in sr.API_WRITES or n in sr.API_STUTTER: return True
    if n in READS_CUR: return e.get('snap', 0) == 0
    return False


def _keep_c06(e):
    n = e['e']
    if n in sr.API_WRITES or n in sr.API_STUTTER or n in ('snap', 'rel'): return True
    if n in READS_CUR: return e.get('snap', 0) != 0
    if n in ('iter_new', 'iter_free', 'it', 'scan'): return True   # iterators over snapshots; filtered below
    return False


def _keep_c07(e):
    n = e['e']
    return n in sr.API_WRITES or n in sr.API_STUTTER or n in ('snap', 'rel', 'iter_new', 'iter_free', 'it', 'scan')


def _c06_filter(evs):
    """Keep only iterators / scans that use a snapshot (the others belong to C07)."""
    out = []; snap_iters = set()
    for e in evs:
        n = e['e']
        if n == 'iter_new':
            if e.get('snap', 0) != 0: snap_iters.add(e['id']); out.append(e)
        elif n in ('it', 'iter_free'):
            if e['id'] in snap_iters:
                out.append(e)
                if n == 'iter_free': snap_iters.discard(e['id'])
        elif n == 'scan':
            if e.get('snap', 0) != 0: out.append(e)
        elif n == 'Reset':
            snap_iters = set(); out.append(e)
        else:
            out.append(e)
    return out


PLANS = {
    # prop: (keep predicate, post filter, quick [(profile, runs, steps)], thorough [...])
    'C01': (_keep_c01, None, [('mixed', 6, 700), ('deep', 6, 700), ('bigval', 3, 300)],
            [('mixed', 90, 1500), ('deep', 90, 1500), ('bigval', 40, 500)]),
    'C06': (_keep_c06, _c06_filter, [('snap', 8, 700), ('deep', 3, 600), ('bigval', 3, 300)],
            [('snap', 120, 1500), ('deep', 40, 1200), ('bigval', 40, 500)]),
    'C07': (_keep_c07, None, [('iter', 8, 700), ('deep', 3, 600), ('bigval', 2, 300)],
            [('iter', 140, 1500), ('deep', 40, 1200), ('bigval', 30, 500)]),
}


def api_layer(prop, tier, seed, out, stats):
    keep, post, quick, thorough = PLANS[prop]
    plan = quick if tier == 'quick' else thorough
    lib = c.build_lib(); exe = c.build_driver('seq', lib)
    execs = []
    for pi, (profile, runs, steps) in enumerate(plan):
        for i in range(runs):
            execs.append(sr.Exec(seed * 100000 + pi * 1000 + i, steps, profile))
    t0 = time.time()
    sr.run_campaign(exe, execs)
    stats['driver_wall_s'] = round(time.time() - t0, 1)
    per = []
    for ex in execs:
        if ex.rc != 0:
            _driver_failure(prop, exe, ex, out)
            per.append([])
            continue
        evs = [e for e in sr.load_events(ex.trace) if keep(e)]
        if post: evs = post(evs)
        per.append(evs)
    res = sr.validate_batches('KvTrace', 'KvTrace.cfg', [p for p in per if p])
    idx = [i for i, p in enumerate(per) if p]
    stats['tv_states'] = sum(r['states'] for r in res)
    stats['tv_transitions'] = sum(r['generated'] for r in res)
    stats['events'] = sum(len(p) for p in per)
    stats['executions'] = len(execs)
    stats['accepted'] = 0
    for r in res:
        if r['accepted'] or out.full():
            continue
        ex = execs[idx[r['exec_index']]]
        _confirm_and_report(prop, exe, ex, keep, post, out, r)
    # count accepted executions: those not in a rejected position (conservative: executions after a rejection in the
    # same batch were not examined; they are re-validated individually)
    rejected_batches = [r for r in res if not r['accepted']]
    unexamined = []
    for r in rejected_batches:
        # executions after the rejected one in this batch
        start = r['exec_index']
        pass
    stats['accepted'] = len(execs) - len([r for r in res if not r['accepted']])
    # re-validate individually everything that shared a batch with a rejection (so the rest is still checked)
    if rejected_batches and not out.full():
        _revalidate_rest(prop, exe, execs, per, idx, res, keep, post, out)
    stats['samples'] = _samples(per)
    stats['option_mixes'] = len(set(json.dumps(_opts_of(ex)) for ex in execs if ex.trace and os.path.exists(ex.trace)))
    kinds = {}
    for p in per:
        for e in p:
            kinds[e['e']] = kinds.get(e['e'], 0) + 1
    stats['event_kinds'] = kinds
    for ex in execs:
        if ex.dir: c.rmtree(ex.dir)


def _opts_of(ex):
    try:
        with open(ex.trace) as f:
            for ln in f:
                e = json.loads(ln)
                if e['e'] == 'opts':
                    return {k: v for k, v in e.items() if k not in ('n', 't', 'e')}
    except Exception:
        pass
    return {}


def _samples(per):
    out = []
    for p in per:
        if len(p) > 40:
            out.append([{k: v for k, v in e.items() if k not in ('n', 't')} for e in p[20:32]])
        if len(out) >= 2: break
    return out or [[]]


def _driver_failure(prop, exe, ex, out):
    """The driver did not finish: crash, failed open, or timeout. Reproduce before reporting."""
    ex2 = sr.Exec(ex.seed, ex.steps, ex.profile, ex.bits)
    sr.run_exec(exe, ex2)
    if ex2.rc == 0:
        raise Broken('driver failure not reproducible (seed %d profile %s rc %s): %s' % (ex.seed, ex.profile, ex.rc, ex.err))
    d = c.replay_dir(prop, 'driver')
    json.dump(dict(kind='seq', prop=prop, exec=ex.desc(), why='driver exit %s' % ex.rc, stderr=ex.err), open(os.path.join(d, 'replay.json'), 'w'), indent=1)
    if ex2.trace and os.path.exists(ex2.trace): shutil.copy(ex2.trace, os.path.join(d, 'trace.ndjson'))
    what = 'execution did not complete (exit %s%s): seed=%d profile=%s' % (ex.rc, ', timeout' if getattr(ex, 'timed_out', False) else '', ex.seed, ex.profile)
    out.violation(what, d, dict(kind='driver_exit', rc=ex.rc))
    if ex2.dir: c.rmtree(ex2.dir)


def _validate_single(evs):
    d = c.scratch('tv1')
    path = os.path.join(d, 't.ndjson')
    sr.write_trace(path, evs)
    r = c.trace_validate('KvTrace', 'KvTrace.cfg', path)
    return r, path


def _confirm_and_report(prop, exe, ex, keep, post, out, r):
    # reproduce: same seed, fresh run, validated alone
    ex2 = sr.Exec(ex.seed, ex.steps, ex.profile, ex.bits)
    sr.run_exec(exe, ex2)
    if ex2.rc != 0:
        _driver_failure(prop, exe, ex2, out); return
    evs = [e for e in sr.load_events(ex2.trace) if keep(e)]
    if post: evs = post(evs)
    r2, path = _validate_single(evs)
    if r2['accepted']:
        # the first run is validated alone too; a rejection that does not repeat is reported as flaky infrastructure
        evs1 = [e for e in sr.load_events(ex.trace) if keep(e)]
        if post: evs1 = post(evs1)
        r1, path1 = _validate_single(evs1)
        if r1['accepted']:
            raise Broken('rejection did not repeat in isolation (batch effect?) seed=%d' % ex.seed)
        r2, path, evs, ex2 = r1, path1, evs1, ex
    d = c.replay_dir(prop, 'api')
    shutil.copy(path, os.path.join(d, 'api_trace.ndjson'))
    if ex2.trace and os.path.exists(ex2.trace): shutil.copy(ex2.trace, os.path.join(d, 'full_trace.ndjson'))
    bad = evs[r2['prefix']] if r2['prefix'] is not None and r2['prefix'] < len(evs) else None
    json.dump(dict(kind='seq', prop=prop, exec=ex.desc(), layer='KvTrace', rejected_event=bad, prefix=r2['prefix'],
                   violated=r2['violated'], tlc_tail=r2['res'].out[-3000:]), open(os.path.join(d, 'replay.json'), 'w'), indent=1)
    open(os.path.join(d, 'README'), 'w').write('Reproduce: cd /verif && ./check replay %s\nThe abstract store cannot explain event %s of api_trace.ndjson:\n%s\n' % (d, r2['prefix'], json.dumps(bad)))
    what = 'KvTrace rejects event #%s %s (seed=%d profile=%s)' % (r2['prefix'], json.dumps(bad), ex.seed, ex.profile)
    out.violation(what, d, dict(kind='api', event=(bad or {}).get('e')))
    if ex2.dir and ex2 is not ex: c.rmtree(ex2.dir)


def _revalidate_rest(prop, exe, execs, per, idx, res, keep, post, out):
    """Executions that followed a rejected one inside a batch were not examined: validate them one by one."""
    todo = []
    nonempty = [p for p in per if p]
    # rebuild batch membership the same way validate_batches did
    pos = 0
    for r in res:
        pass
    # simple and safe: validate every execution after the first rejected index individually
    first_bad = min(r['exec_index'] for r in res if not r['accepted'])
    for j in range(first_bad + 1, len(nonempty)):
        todo.append(j)
    if not todo: return
    rs = sr.validate_batches('KvTrace', 'KvTrace.cfg', [nonempty[j] for j in todo], batch_lines=1)
    seen = set()
    for r in rs:
        if not r['accepted'] and not out.full():
            ex = execs[idx[todo[r['exec_index']]]]
            if ex.seed in seen: continue
            seen.add(ex.seed)
            # was this execution already reported by the batch run?
            _confirm_and_report(prop, exe, ex, keep, post, out, r)


def run_prop(prop, tier, seed, extra_layers=()):
    t0 = time.time()
    out = Outcome(prop)
    stats = {}
    api_layer(prop, tier, seed, out, stats)
    mc = {}
    for layer in extra_layers:
        layer(prop, tier, seed, out, mc)
    cov = dict(states=stats.get('tv_states', 0) + sum(v.get('states', 0) for v in mc.values()),
               transitions=stats.get('tv_transitions', 0) + sum(v.get('transitions', 0) for v in mc.values()),
               traces_validated_against_impl=stats.get('executions', 0) + sum(v.get('traces', 0) for v in mc.values()),
               samples=stats.get('samples', [[]]),
               api_layer=dict((k, v) for k, v in stats.items() if k != 'samples'),
               layers=mc, exhaustive=False)
    rc = out.finish()
    c.write_evidence(prop, tier, seed, 'model_checking', cov, time.time() - t0, violations=len(out.violations),
                     assumptions=['values are identified by a 3-byte id + length-derived body; keys are 16 fixed byte strings ranked by the configured comparator',
                                  'background-thread timing is not controlled in API-level runs (single foreground thread)',
                                  'TLC (tla2tools 1.8.0) and the Json community module are trusted'])
    return rc


def _layers(prop):
    ls = []
    try:
        from . import p_lsm
        ls += p_lsm.layers_for(prop)
    except ImportError:
        pass
    try:
        from . import p_comp
        ls += p_comp.layers_for(prop)
    except ImportError:
        pass
    return ls


def _iter_layer(prop, tier, seed, out, mc):
    from . import p_iter
    return p_iter.iter_layer(prop, tier, seed, out, mc)


CHECKS = {
    'C01': lambda tier, seed: run_prop('C01', tier, seed, _layers('C01')),
    'C06': lambda tier, seed: run_prop('C06', tier, seed, _layers('C06')),
    'C07': lambda tier, seed: run_prop('C07', tier, seed, _layers('C07') + [_iter_layer]),
}
