"""Projection for the structure layer: adds independently decoded table contents to hook events and
parses the reported level structure / directory listings into the abstract terms LsmTrace.tla consumes."""
import os, re
from . import ldbref

CONSUMED = {'Reset', 'call_write', 'WPublish', 'MemSwitch', 'FlushStart', 'TableBuilt', 'FlushPick', 'ImmDone', 'CompPick',
            'CompOutOpen', 'CompOutDone', 'CompInstall', 'CompCleanup', 'TrivialMove', 'VersionInstall', 'Obsolete', 'ObsoleteDone',
            'IterNew', 'IterFree', 'GetCap', 'GetDone', 'SnapNew', 'SnapRel', 'sstables', 'ls', 'closed', 'RecoverManifest',
            'RecoverLog', 'OpenDone'}


class ProjectionError(Exception):
    pass


def unescape(s):
    out = bytearray(); i = 0
    while i < len(s):
        if s[i] == '\\' and i + 3 < len(s) and s[i + 1] == 'x':
            out.append(int(s[i + 2:i + 4], 16)); i += 4
        else:
            out.append(ord(s[i])); i += 1
    return bytes(out)


SST_RE = re.compile(r"^ (\d+):(\d+)\['(.*)' @ (\d+) : (\d+) \.\. '(.*)' @ (\d+) : (\d+)\]$")


def parse_sstables(text, rank_of):
    files = []; level = None
    for ln in text.split('\n'):
        m = re.match(r'^--- level (\d+) ---$', ln)
        if m:
            level = int(m.group(1)); continue
        if not ln.strip():
            continue
        m = SST_RE.match(ln)
        if not m:
            raise ProjectionError('unparsable sstables line: %r' % ln)
        sk = rank_of(unescape(m.group(3))); lk = rank_of(unescape(m.group(6)))
        files.append([level, int(m.group(1)), int(m.group(2)), sk, int(m.group(4)), int(m.group(5)), lk, int(m.group(7)), int(m.group(8))])
    return files


def vid_of(typ, vlen, head):
    if typ == 0:
        return 0
    if vlen >= 5 and len(head) >= 4 and head[3] == 0x7f:
        return head[0] | (head[1] << 8) | (head[2] << 16)
    return -1


def split_names(names):
    tables = []; logs = []; mans = []; temps = []
    for n in names:
        m = re.match(r'^(\d+)\.(ldb|sst)$', n)
        if m: tables.append(int(m.group(1))); continue
        m = re.match(r'^(\d+)\.log$', n)
        if m: logs.append(int(m.group(1))); continue
        m = re.match(r'^MANIFEST-(\d+)$', n)
        if m: mans.append(int(m.group(1))); continue
        m = re.match(r'^(\d+)\.dbtmp$', n)
        if m: temps.append(int(m.group(1))); continue
    return tables, logs, mans, temps


def enrich(events, keepdir):
    """-> (list of events for LsmTrace, stats). Raises ProjectionError when bytes cannot be explained."""
    keymap = {}; cmpkind = 0
    for e in events:
        if e['e'] == 'keys':
            cmpkind = e['cmp']
            for r, h in enumerate(e['hex']):
                keymap[bytes.fromhex(h)] = r
            break

    def rank_of(k):
        if k not in keymap:
            raise ProjectionError('a key that was never written: %r' % k)
        return keymap[k]
    kept = [e for e in events if e['e'] == 'Kept']
    paths = [os.path.join(keepdir, e['file']) for e in kept]
    decoded = {}
    if paths:
        try:
            decoded = ldbref.table_entries(paths, cmpkind)
        except ldbref.TableError as ex:
            raise ProjectionError('reference LevelDB reader cannot decode a table lcdb wrote: %s' % ex)
    out = []; pending_kept = {}   # (thread, num) -> file path
    stats = dict(tables=0, entries=0, max_level=0, layouts=set())
    for e in events:
        n = e['e']
        if n == 'Kept':
            pending_kept[(e['t'], e['num'])] = os.path.join(keepdir, e['file'])
            continue
        if n not in CONSUMED:
            continue
        e = dict(e)
        if n in ('TableBuilt', 'CompOutDone'):
            ok = e.get('rc') == 0 and e.get('size', 0) > 0 and (n == 'TableBuilt' or e.get('entries', 0) > 0)
            e['ents'] = []
            if ok:
                p = pending_kept.pop((e['t'], e['num']), None)
                if p is None or p not in decoded:
                    raise ProjectionError('no preserved copy of table %s' % e['num'])
                ents = []
                for (k, s, typ, vlen, head) in decoded[p]:
                    ents.append([rank_of(k), s, 1 if typ == 0 else 0, vid_of(typ, vlen, head)])
                e['ents'] = ents
                stats['tables'] += 1; stats['entries'] += len(ents)
        elif n == 'Obsolete':
            t, lg, mn, tmp = split_names(e.get('del', []))
            e['deltables'] = t; e['dellogs'] = lg; e['delmanifests'] = mn
            e.pop('del', None); e.pop('live', None)
        elif n == 'sstables':
            e['files'] = parse_sstables(e.pop('text'), rank_of)
            for f in e['files']:
                stats['max_level'] = max(stats['max_level'], f[0])
            stats['layouts'].add(tuple(sorted((f[0], f[1]) for f in e['files'])))
        elif n == 'ls':
            t, lg, mn, tmp = split_names(e.pop('names'))
            e['tables'] = t; e['logs'] = lg; e['manifests'] = mn; e['temps'] = tmp
        elif n in ('VersionInstall', 'RecoverManifest'):
            for f in e['files']:
                stats['max_level'] = max(stats['max_level'], f[0])
        out.append(e)
    stats['layouts'] = len(stats['layouts'])
    return out, stats
