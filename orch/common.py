"""Shared plumbing for the lcdb verification checks: build cache, process helpers, TLC runners,
evidence, known findings, violation reporting."""
import hashlib, json, os, re, shutil, subprocess, sys, time, glob, tempfile, random

VERIF = os.path.dirname(os.path.dirname(os.path.abspath(__file__)))
REPO = os.environ.get('LCDB_REPO', '/repo')
BUILD = os.path.join(VERIF, 'build')
WORK = os.environ.get('VERIF_WORK', os.path.join(VERIF, 'work'))
SPEC = os.path.join(VERIF, 'spec')
HARNESS = os.path.join(VERIF, 'harness')
EVIDENCE = os.path.join(VERIF, 'evidence')
if os.environ.get('LCDB_REPO') and os.path.realpath(os.environ['LCDB_REPO']) != '/repo':
    # runs against a scratch worktree (seeded changes, mutants) never touch the committed evidence of the unchanged tree
    EVIDENCE = os.path.join(VERIF, 'work', 'evidence_other_tree')
TLA_JAR = '/opt/veriftools/tla/tla2tools.jar'
TLA_CP = TLA_JAR + ':/opt/veriftools/tla/CommunityModules-deps.jar'
NCPU = 16

BASE_FLAGS = ['-O2', '-g', '-DNDEBUG', '-D_GNU_SOURCE', '-DLDB_PTHREAD', '-DLCDB_VERIF', '-w']


class Broken(Exception):
    """Infrastructure failure: the check is broken (exit 2), never a violation."""


def log(*a):
    print(*a, file=sys.stderr, flush=True)


def sh(cmd, timeout=600, env=None, cwd=None, check=False, input=None, binary=False):
    e = dict(os.environ)
    if env:
        e.update({k: str(v) for k, v in env.items()})
    try:
        p = subprocess.run(cmd, capture_output=True, timeout=timeout, env=e, cwd=cwd, input=input,
                           text=not binary)
    except subprocess.TimeoutExpired as ex:
        class R: pass
        r = R(); r.returncode = -9; r.stdout = (ex.stdout or (b'' if binary else ''))
        r.stderr = (ex.stderr or (b'' if binary else '')); r.timed_out = True
        if not binary:
            if isinstance(r.stdout, bytes): r.stdout = r.stdout.decode('utf-8', 'replace')
            if isinstance(r.stderr, bytes): r.stderr = r.stderr.decode('utf-8', 'replace')
        return r
    p.timed_out = False
    if check and p.returncode != 0:
        raise Broken('command failed (%d): %s\n%s\n%s' % (p.returncode, ' '.join(map(str, cmd)), p.stdout[-2000:], p.stderr[-2000:]))
    return p


# ---------------------------------------------------------------------------------------------
# Build cache
# ---------------------------------------------------------------------------------------------
def _sha(*parts):
    h = hashlib.sha256()
    for p in parts:
        h.update(p if isinstance(p, bytes) else p.encode())
        h.update(b'\0')
    return h.hexdigest()[:24]


def repo_sources(repo=None):
    repo = repo or REPO
    srcs = []
    for d in ('src', 'src/util', 'src/table'):
        for f in sorted(glob.glob(os.path.join(repo, d, '*.c'))):
            if os.path.basename(f) in ('dbutil.c',):
                continue
            srcs.append(f)
    return srcs


def _headers_hash(repo):
    h = hashlib.sha256()
    for d in ('include', 'src', 'src/util', 'src/table'):
        for f in sorted(glob.glob(os.path.join(repo, d, '*.h'))):
            h.update(f.encode()); h.update(open(f, 'rb').read())
    return h.hexdigest()[:24]


def build_lib(extra_flags=(), repo=None):
    """Compile every lcdb source of the current working tree (hooks on) into a static library.
    Objects are cached by content hash of source + all headers + flags."""
    repo = repo or REPO
    flags = BASE_FLAGS + list(extra_flags) + ['-I' + os.path.join(repo, 'include')]
    hh = _headers_hash(repo)
    objdir = os.path.join(BUILD, 'obj'); os.makedirs(objdir, exist_ok=True)
    jobs = []; objs = []
    for src in repo_sources(repo):
        rel = os.path.relpath(src, repo)
        key = _sha(rel, open(src, 'rb').read(), hh, ' '.join(flags).replace(repo, '@'))
        obj = os.path.join(objdir, key + '.o')
        objs.append(obj)
        if not os.path.exists(obj):
            jobs.append((src, obj))
    if jobs:
        procs = []
        for src, obj in jobs:
            tmp = obj + '.tmp%d' % os.getpid()
            procs.append((subprocess.Popen(['gcc'] + flags + ['-c', src, '-o', tmp], stdout=subprocess.PIPE, stderr=subprocess.STDOUT), src, obj, tmp))
            while sum(1 for p in procs if p[0].poll() is None) >= NCPU:
                time.sleep(0.01)
        for p, src, obj, tmp in procs:
            out = p.communicate()[0]
            if p.returncode != 0:
                raise Broken('compile failed: %s\n%s' % (src, out.decode('utf-8', 'replace')[-3000:]))
            os.replace(tmp, obj)
    libkey = _sha(*objs)
    libdir = os.path.join(BUILD, 'lib'); os.makedirs(libdir, exist_ok=True)
    lib = os.path.join(libdir, 'liblcdb_%s.a' % libkey)
    if not os.path.exists(lib):
        tmp = lib + '.tmp%d' % os.getpid()
        sh(['ar', 'rcs', tmp] + objs, check=True)
        os.replace(tmp, lib)
    _prune(objdir, 1500); _prune(libdir, 12)
    return lib


def _prune(d, keep):
    fs = [os.path.join(d, f) for f in os.listdir(d)]
    if len(fs) <= keep:
        return
    fs.sort(key=lambda f: os.path.getmtime(f))
    now = time.time()
    for f in fs[:len(fs) - keep]:
        try:
            # never remove what another check running at the same time may be using
            if now - max(os.path.getmtime(f), os.path.getatime(f)) < 6 * 3600: continue
            os.unlink(f)
        except OSError: pass


def build_driver(name, lib, extra_src=(), extra_flags=(), cxx=False, libs=(), repo=None, shim=True):
    """Link harness/drv/<name>.c with the hook runtime, the I/O shim and the lcdb library."""
    repo = repo or REPO
    srcs = [os.path.join(HARNESS, 'drv', name + ('.cc' if cxx else '.c')), os.path.join(HARNESS, 'rt', 'verif_rt.c')]
    if shim:
        srcs.append(os.path.join(HARNESS, 'rt', 'io_shim.c'))
    srcs += list(extra_src)
    flags = ['-O1', '-g', '-D_GNU_SOURCE', '-DLCDB_VERIF', '-w', '-I' + os.path.join(repo, 'include'), '-I' + os.path.join(repo, 'src'),
             '-I' + os.path.join(HARNESS, 'rt'), '-I' + os.path.join(HARNESS, 'drv')] + list(extra_flags)
    hdrs = b''.join(open(f, 'rb').read() for f in sorted(glob.glob(os.path.join(HARNESS, '*', '*.h'))))
    key = _sha(lib, hdrs, _headers_hash(repo), ' '.join(flags), *[open(s, 'rb').read() for s in srcs])
    bindir = os.path.join(BUILD, 'bin'); os.makedirs(bindir, exist_ok=True)
    exe = os.path.join(bindir, '%s_%s' % (name, key))
    if not os.path.exists(exe):
        tmp = exe + '.tmp%d' % os.getpid()
        cc = 'g++' if cxx else 'gcc'
        sh([cc] + flags + srcs + [lib, '-lpthread', '-lm'] + list(libs) + ['-o', tmp], check=True, timeout=300)
        os.replace(tmp, exe)
    _prune(bindir, 60)
    return exe


# ---------------------------------------------------------------------------------------------
# Scratch
# ---------------------------------------------------------------------------------------------
def scratch_base():
    return os.path.join(WORK, 'tmp', str(os.getpid()))


def scratch(tag):
    base = scratch_base(); os.makedirs(base, exist_ok=True)
    return tempfile.mkdtemp(prefix=tag + '_', dir=base)


def pmap(fn, items, nproc=NCPU):
    """Run fn over items with a thread pool (fn spawns subprocesses, so threads suffice)."""
    from concurrent.futures import ThreadPoolExecutor
    if not items:
        return []
    with ThreadPoolExecutor(max_workers=nproc) as ex:
        return list(ex.map(fn, items))


def rmtree(d):
    shutil.rmtree(d, ignore_errors=True)


_replay_n = 0


def replay_dir(prop, tag):
    global _replay_n
    _replay_n += 1
    d = os.path.join(WORK, 'replay', '%s_%s_%d_%d' % (prop, tag, int(time.time() * 1000) % 100000000, _replay_n))
    os.makedirs(d, exist_ok=True)
    return d


# ---------------------------------------------------------------------------------------------
# TLC
# ---------------------------------------------------------------------------------------------
class TlcResult:
    def __init__(self):
        self.rc = None; self.out = ''; self.generated = 0; self.distinct = 0; self.depth = 0
        self.violated = None      # name of violated invariant / property, or 'deadlock'
        self.error = None         # infrastructure-level error text
        self.coverage = {}        # action -> (taken, generated) when -coverage was requested
        self.trace = []           # counterexample states (raw text blocks)
        self.wall = 0.0
        self.timed_out = False
        self.printed = []         # values printed by PrintT


def tlc(module, cfg=None, workers=NCPU, timeout=900, env=None, simulate=None, depth=None, extra=(), heap='8g',
        coverage=False, deadlock=True, dfs=False, cwd=None, seed=None, stop_on_violation=False):
    """Run TLC on spec/<module>.tla with spec/<cfg>. Returns TlcResult. Never raises for a property violation."""
    cwd = cwd or SPEC
    meta = scratch('tlc')
    jopts = ['-XX:+UseParallelGC', '-Xmx' + heap, '-Xss64m', '-Djava.io.tmpdir=' + meta]   # TLC's tlc-* temp dirs go with the metadir
    if dfs:
        jopts.append('-Dtlc2.tool.queue.IStateQueue=StateDeque')
    cmd = ['java'] + jopts + ['-cp', TLA_CP, 'tlc2.TLC', '-metadir', meta, '-workers', str(workers), '-noGenerateSpecTE']
    if cfg:
        cmd += ['-config', cfg]
    if simulate:
        cmd += ['-simulate', 'num=%d' % simulate]
        if depth:
            cmd += ['-depth', str(depth)]
    if coverage:
        cmd += ['-coverage', '1']
    if not deadlock:
        cmd += ['-deadlock']
    if seed is not None:
        cmd += ['-seed', str(seed)]
    cmd += list(extra) + [module]
    t0 = time.time()
    r = TlcResult()
    if stop_on_violation:
        # trace validation: the violated invariant prints its position (ViolAt); do not wait for TLC to rebuild the behaviour
        e = dict(os.environ)
        if env: e.update({k: str(v) for k, v in env.items()})
        pr = subprocess.Popen(cmd, stdout=subprocess.PIPE, stderr=subprocess.STDOUT, env=e, cwd=cwd, text=True)
        import threading
        buf = []; hit = [None]

        def reader():
            for ln in pr.stdout:
                buf.append(ln)
                if hit[0] is None and re.match(r'Error: Invariant \S+ is violated', ln):
                    hit[0] = time.time()
        th = threading.Thread(target=reader, daemon=True); th.start()
        while True:
            if pr.poll() is not None: break
            if time.time() - t0 > timeout:
                pr.kill(); r.timed_out = True; break
            if hit[0] is not None and time.time() - hit[0] > 3.0:
                pr.kill(); break
            time.sleep(0.05)
        th.join(timeout=5)
        r.rc = pr.returncode if pr.returncode is not None else -9
        r.out = ''.join(buf)
        r.killed_after_violation = hit[0] is not None and r.rc != 0 and 'states generated' not in r.out.split('is violated')[-1]
    else:
        p = sh(cmd, timeout=timeout, env=env, cwd=cwd)
        r.rc = p.returncode; r.out = (p.stdout or '') + (p.stderr or '')
        r.timed_out = getattr(p, 'timed_out', False)
    r.wall = time.time() - t0
    rmtree(meta)
    _parse_tlc(r)
    return r


def _parse_tlc(r):
    out = r.out
    m = re.findall(r'(\d+) states generated, (\d+) distinct states found', out)
    if m:
        r.generated, r.distinct = int(m[-1][0]), int(m[-1][1])
    m = re.search(r'The depth of the complete state graph search is (\d+)', out)
    if m: r.depth = int(m.group(1))
    m = re.search(r'Invariant (\S+) is violated', out)
    if m: r.violated = m.group(1)
    m = re.search(r'Action property (\S+) is violated', out)
    if m: r.violated = m.group(1)
    if 'Temporal properties were violated' in out:
        r.violated = r.violated or 'temporal'
    if 'Deadlock reached' in out:
        r.violated = r.violated or 'deadlock'
    m = re.search(r'The postcondition (\S+)? ?(?:is|was) violated|postcondition .* violated', out)
    if m: r.violated = r.violated or 'postcondition'
    if r.violated is None:
        if r.timed_out:
            r.error = 'timeout'
        elif 'Model checking completed. No error has been found' in out or 'Finished computing initial states' in out and r.rc == 0:
            pass
        elif r.rc != 0 and 'Simulation' not in out:
            errs = [i for i, ln in enumerate(out.split('\n')) if ln.startswith('Error:')]
            lines = out.split('\n')
            detail = '\n'.join('\n'.join(lines[i:i + 14]) for i in errs[:3]) if errs else out[-1500:]
            r.error = 'tlc rc=%s: %s' % (r.rc, detail[-4000:])
        elif re.search(r'Error:|Exception', out) and 'No error has been found' not in out:
            r.error = 'tlc error: %s' % out[-1500:]
    else:
        # an evaluation error reported as "violated" is still a violation of that invariant; but a
        # TLC runtime error while evaluating is infrastructure
        if re.search(r'Error: Evaluating invariant|was not in the domain|Attempted to', out):
            r.error = 'tlc evaluation error: %s' % out[-2500:]
    r.printed = re.findall(r'^<<"pr", *(.*)>>$', out, re.M)
    r.viol_at = None
    mm = re.search(r'^<<"pr", *"(\w+)", *(\d+)>>$', out, re.M)
    if mm: r.viol_at = (mm.group(1), int(mm.group(2)))
    # counterexample
    states = re.split(r'\nState \d+: ', out)
    if len(states) > 1:
        r.trace = [s.split('\n\n')[0] for s in states[1:]]
    # coverage lines: <Action line x, col y to line z, col w of module M>: taken:generated
    for mm in re.finditer(r'^<(\w+) line \d+, col \d+ to line \d+, col \d+ of module (\w+)>: (\d+):(\d+)', out, re.M):
        r.coverage[mm.group(1)] = (int(mm.group(3)), int(mm.group(4)))


def count_lines(path):
    n = 0
    with open(path, 'rb') as f:
        for _ in f:
            n += 1
    return n


_TV_LOG = {}     # sha1 of a rejected trace -> how it was validated (written next to the trace in the replay directory)


def _sha_file(path):
    import hashlib
    h = hashlib.sha1()
    with open(path, 'rb') as f:
        for blk in iter(lambda: f.read(1 << 20), b''): h.update(blk)
    return h.hexdigest()


def trace_validate(module, cfg, trace_path, timeout=900, extra_env=None, heap='6g', dfs=False, silent_steps=False, header_lines=0):
    out = _trace_validate(module, cfg, trace_path, timeout, extra_env, heap, dfs, silent_steps, header_lines)
    if not out['accepted']:
        try:
            _TV_LOG[_sha_file(trace_path)] = dict(module=module, cfg=cfg, header_lines=header_lines, silent_steps=silent_steps, heap=heap,
                                                  extra_env=extra_env or {}, violated=out['violated'], prefix=out['prefix'], lines=out['lines'])
        except OSError:
            pass
    return out


def save_tv(rd):
    """Write tv.json into a replay directory: for every stored trace that a validation of this process rejected,
    the module / configuration it was validated with (./check replay re-runs exactly that)."""
    if not rd or not os.path.isdir(rd): return
    ent = {}
    for fn in sorted(os.listdir(rd)):
        if fn.endswith('.ndjson'):
            try: h = _sha_file(os.path.join(rd, fn))
            except OSError: continue
            if h in _TV_LOG: ent[fn] = _TV_LOG[h]
    if ent:
        json.dump(ent, open(os.path.join(rd, 'tv.json'), 'w'), indent=1)


def _trace_validate(module, cfg, trace_path, timeout=900, extra_env=None, heap='6g', dfs=False, silent_steps=False, header_lines=0):
    """Trace validation. Every trace action consumes exactly one line (l' = l + 1), so the depth of the
    explored graph is 1 + the longest prefix the specification explains: accepted <=> depth = lines + 1 and
    no invariant was violated on the way. With silent_steps the cfg must carry INVARIANT NotAccepted and
    acceptance is its violation. Returns dict(accepted, violated, prefix, lines, res)."""
    e = {'TRACE': trace_path}
    if extra_env: e.update(extra_env)
    n = count_lines(trace_path)
    r = tlc(module, cfg, workers=1, timeout=timeout, env=e, deadlock=False, heap=heap, dfs=dfs, stop_on_violation=True)
    out = dict(accepted=False, violated=None, prefix=None, lines=n, res=r)
    if silent_steps:
        if r.violated == 'NotAccepted':
            out['accepted'] = True
        elif r.violated:
            out['violated'] = r.violated
        elif r.error:
            raise Broken('TLC failed on %s: %s' % (module, r.error))
        out['prefix'] = r.depth - 1 if r.depth else None
        return out
    if r.error and not r.violated:
        raise Broken('TLC failed on %s: %s' % (module, r.error))
    if r.violated:
        out['violated'] = r.violated
        if getattr(r, 'viol_at', None):
            out['prefix'] = max(0, r.viol_at[1] - 2)   # l points at the next line (1-based): the consumed line is l-1, 0-based l-2
        else:
            out['prefix'] = max(0, len(r.trace) - 2 + header_lines)   # 0-based index of the line whose consumption broke the invariant
        return out
    if r.depth == n + 1 - header_lines:
        out['accepted'] = True
    out['prefix'] = max(0, r.depth - 1 + header_lines)
    return out


# ---------------------------------------------------------------------------------------------
# Evidence and findings
# ---------------------------------------------------------------------------------------------
def write_evidence(prop, tier, seed, level, coverage, wall, violations=0, assumptions=()):
    os.makedirs(EVIDENCE, exist_ok=True)
    ev = dict(property_id=prop, tier=tier, seed=int(seed), level=level, coverage=coverage, wall_s=round(wall, 2),
              violations=int(violations), assumptions=list(assumptions))
    path = os.path.join(EVIDENCE, prop + '.json')
    tmp = path + '.tmp'
    with open(tmp, 'w') as f:
        json.dump(ev, f, indent=1, default=str)
    schema = '/root/.vp/EVIDENCE.schema.json'
    if not os.path.exists(schema):
        schema = os.path.join(VERIF, 'orch', 'EVIDENCE.schema.json')
    if shutil.which('python3-vt'):
        p = sh(['python3-vt', '-c', 'import json,jsonschema,sys; jsonschema.validate(json.load(open(sys.argv[1])), json.load(open(sys.argv[2])))', tmp, schema], timeout=60)
        if p.returncode != 0:
            raise Broken('evidence does not validate: %s' % p.stderr[-1500:])
    os.replace(tmp, path)
    return path


def load_findings():
    p = os.path.join(VERIF, 'known_findings.jsonl')
    out = []
    if os.path.exists(p):
        for ln in open(p):
            ln = ln.strip()
            if ln and not ln.startswith('#'):
                out.append(json.loads(ln))
    return out


def match_finding(prop, shape):
    """Return the open finding whose 'match' dict is a sub-dict of shape, if any."""
    for f in load_findings():
        if f.get('status') != 'open' or f.get('property') != prop:
            continue
        m = f.get('match', {})
        if all(shape.get(k) == v for k, v in m.items()):
            return f
    return None


class Outcome:
    """Collects violations for one check run; separates known findings from new violations."""
    def __init__(self, prop):
        self.prop = prop; self.violations = []; self.known = []

    def violation(self, what, replay, shape=None):
        save_tv(replay)
        f = match_finding(self.prop, shape or {}) if shape is not None else None
        if f is not None:
            if f['id'] not in [k['id'] for k in self.known]:
                self.known.append(f)
            return False
        self.violations.append((what, replay))
        return True

    def full(self):
        return len(self.violations) >= 3

    def finish(self):
        for f in self.known:
            print('KNOWN-FINDING: property=%s %s' % (self.prop, f['what']))
        for what, replay in self.violations[:5]:
            print('VIOLATION property=%s replay=%s' % (self.prop, replay))
            log('  ' + what)
        sys.stdout.flush()
        return 1 if self.violations else 0


def seed_from_env(default=1):
    try:
        return int(os.environ.get('VERIF_SEED', default))
    except ValueError:
        return default
