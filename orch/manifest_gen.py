#!/usr/bin/env python3
"""Generates /verif/MANIFEST.json from the table below (run: python3 orch/manifest_gen.py)."""
import json, os, subprocess, sys

VERIF = os.path.dirname(os.path.dirname(os.path.abspath(__file__)))

CLAIMED = {
    # id: (category, technique, engine, design_ref, level text, level note)
}

NOT_APPLICABLE = {
    'C18': 'Memory safety / totality of C decoders on arbitrary bytes is a property of machine-level execution; a TLA+ model of the bounds checks would only show the model safe. It needs sanitizers/fuzzing (different technique family). See DESIGN.md section 7.',
}

PENDING_REASON = 'check not built yet in this phase (planned, see DESIGN.md section 6); not claimed until its machinery exists and passes on the unchanged tree'


def claimed_from_file():
    p = os.path.join(VERIF, 'orch', 'claims.json')
    return json.load(open(p)) if os.path.exists(p) else {}


def main():
    claims = claimed_from_file()
    props = [json.loads(l)['id'] for l in open(os.path.join(VERIF, 'properties.jsonl'))]
    commits = subprocess.run(['git', '-C', '/repo', 'log', '--format=%H %s', '43b5dda..HEAD'], capture_output=True, text=True).stdout.strip().split('\n')
    hook_commits = [l.split()[0] for l in commits if l and ' verif:' in l]
    man = {
        'version': 1,
        'setup_cmd': './check setup',
        'hooks': {
            'guard': 'LCDB_VERIF',
            'enable': 'checks compile /repo/src/**/*.c themselves with -DLCDB_VERIF (orch/common.py build_lib) and link harness/rt/verif_rt.c + io_shim.c; the CMake build never defines the guard',
            'baseline_off_cmd': 'cmake --build /repo/_build -j16 && ctest --test-dir /repo/_build -j8 --timeout 900',
            'source_commits': hook_commits,
            'add_only': True,
        },
        'engines': [
            {'name': 'tlc', 'path': '/opt/veriftools/tla/tla2tools.jar', 'serves_properties': sorted(claims.keys()),
             'kind_free_text': 'TLC 1.8.0 explicit-state model checker: exhaustive MC of design specs, trace validation of real executions (Json/IOUtils community modules), behaviour generation'},
            {'name': 'harness', 'path': 'harness/', 'serves_properties': sorted(claims.keys()),
             'kind_free_text': 'C drivers + hook runtime + libc I/O shim linked against /repo sources built with -DLCDB_VERIF; Python orchestrator in orch/'},
        ],
        'checks': [],
        'not_applicable': [],
        'notes': 'Model-based verification with explicit TLA+ specifications (spec/*.tla) bound to the implementation by trace validation and generated behaviours. See DESIGN.md.',
    }
    for pid in props:
        if pid in claims:
            cl = claims[pid]
            man['checks'].append({
                'property_id': pid,
                'quick_cmd': './check %s quick' % pid,
                'thorough_cmd': './check %s thorough' % pid,
                'evidence_file': 'evidence/%s.json' % pid,
                'replay_cmd_template': './check replay {path}',
                'engine': cl.get('engine', 'tlc'),
                'level_claimed': {'category': cl.get('category', 'model_checking'), 'text': cl['text'], 'design_ref': cl.get('design_ref', 'DESIGN.md section 6 ' + pid)},
                'level_note': cl['note'],
                'technique': cl['technique'],
            })
        else:
            man['not_applicable'].append({'property_id': pid, 'reason': NOT_APPLICABLE.get(pid, PENDING_REASON)})
    json.dump(man, open(os.path.join(VERIF, 'MANIFEST.json'), 'w'), indent=1)
    r = subprocess.run(['python3-vt', '-c', 'import json,jsonschema,sys; jsonschema.validate(json.load(open(sys.argv[1])), json.load(open(sys.argv[2])))',
                        os.path.join(VERIF, 'MANIFEST.json'), os.path.join(VERIF, 'orch', 'MANIFEST.schema.json')], capture_output=True, text=True)
    print('MANIFEST.json %s: %d checks, %d not_applicable' % ('valid' if r.returncode == 0 else 'INVALID ' + r.stderr[-500:], len(man['checks']), len(man['not_applicable'])))

if __name__ == '__main__':
    main()
