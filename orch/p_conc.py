"""C08 C09 C04(visibility) C10: concurrency layer."""
CON = {'Reset', 'Call', 'Ret', 'final', 'WEnq', 'WLead', 'WGroup', 'LogAppend', 'LogSync', 'MemInsert', 'WPublish', 'CvSignal', 'CvBcast',
       'CvWait', 'CvWoke', 'WDone', 'WFollowerRet', 'RoomWait', 'RoomDelay', 'RoomErr', 'MemSwitch', 'GetCap', 'GetDone', 'SnapNew',
       'SnapRel', 'IterNew', 'IterFree', 'BgSched', 'PoolSchedule', 'PoolRun', 'PoolStop', 'PoolWorkerExit', 'BgStart', 'BgEnd',
       'FlushInComp', 'BgError', 'CloseStart', 'CloseWaited', 'CloseDone', 'open', 'opts', 'ManualSet', 'ManualDone', 'Hang'}
CHECKS = {}
