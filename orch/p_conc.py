"""C08 C09 C04(visibility) C10: the concurrency layer.
   - real multi-threaded executions (conc driver, seeded delay points) validated by ConcTrace.tla,
   - the design (Conc.tla) model-checked for deadlock, lost wake-ups and, under fairness, termination."""
import json, os, shutil, time
from . import common as c
from . import seqrun as sr
from .common import Broken, log, Outcome

CON = {'Reset', 'Call', 'Ret', 'final', 'WEnq', 'WLead', 'WGroup', 'LogAppend', 'LogSync', 'MemInsert', 'WPublish', 'CvSignal', 'CvBcast',
       'CvWait', 'CvWoke', 'WDone', 'WFollowerRet', 'RoomWait', 'RoomDelay', 'RoomErr', 'MemSwitch', 'GetCap', 'GetDone', 'SnapNew',
       'SnapRel', 'IterNew', 'IterFree', 'BgSched', 'PoolSchedule', 'PoolRun', 'PoolStop', 'PoolWorkerExit', 'BgStart', 'BgEnd',
       'FlushInComp', 'BgError', 'CloseStart', 'CloseWaited', 'CloseDone', 'open', 'opts', 'ManualSet', 'ManualDone', 'Hang'}


class CExec:
    def __init__(self, seed, threads, ops, mode):
        self.seed = seed; self.threads = threads; self.ops = ops; self.mode = mode
        self.rc = None; self.dir = None; self.trace = None; self.err = ''; self.timed_out = False

    def desc(self):
        return dict(seed=self.seed, threads=self.threads, ops=self.ops, mode=self.mode)


def run_conc(exe, ex, extra_env=None, timeout=600):   # the driver has its own watchdog (exit 3 when no call completes for 20 s); this is only a backstop
    d = c.scratch('conc'); ex.dir = d
    ex.trace = os.path.join(d, 'trace.ndjson')
    env = {'LCDB_VERIF_LINEBUF': '1'}
    if extra_env: env.update(extra_env)
    p = c.sh([exe, str(ex.seed), str(ex.threads), str(ex.ops), ex.trace, os.path.join(d, 'db'), ex.mode], timeout=timeout, env=env)
    ex.rc = p.returncode; ex.err = (p.stderr or '')[-1000:]; ex.timed_out = getattr(p, 'timed_out', False)
    return ex


def plan(tier, prop):
    if prop == 'C20':
        return [(3, 150, 'bak'), (4, 120, 'bak'), (6, 100, 'bak'), (4, 150, 'stall')] if tier == 'quick' else [(t, o, m) for _ in range(12) for (t, o, m) in [(3, 250, 'bak'), (4, 200, 'bak'), (6, 150, 'bak'), (8, 120, 'bak'), (4, 200, 'stall')]]
    if tier == 'quick' and prop in ('C04', 'C02'):
        return [(3, 150, 'mix'), (4, 150, 'mix'), (6, 100, 'mix'), (8, 80, 'mix')]
    if tier == 'quick':
        base = [(2, 150, 'mix'), (3, 150, 'mix'), (4, 120, 'mix'), (6, 100, 'mix'), (8, 80, 'mix'), (3, 200, 'stall'), (5, 120, 'stall'), (8, 60, 'stall')]
        return base
    out = []
    for rep in range(30):
        for (t, o, m) in [(2, 300, 'mix'), (3, 300, 'mix'), (4, 250, 'mix'), (6, 200, 'mix'), (8, 150, 'mix'), (3, 300, 'stall'), (5, 200, 'stall'), (8, 120, 'stall')]:
            out.append((t, o, m))
    return out


def conc_layer(prop, cfg, tier, seed, out, st):
    lib = c.build_lib(); exe = c.build_driver('conc', lib)
    execs = [CExec(seed * 10000 + i, t, o, m) for i, (t, o, m) in enumerate(plan(tier, prop))]
    c.pmap(lambda ex: run_conc(exe, ex), execs, 6)     # few at a time: these are timing sensitive
    st.update(dict(executions=len(execs), hangs=0, states=0, transitions=0, events=0, groups_multi=0, threads=sorted(set(e.threads for e in execs))))

    def validate(ex):
        evs = [e for e in sr.load_events(ex.trace) if e['e'] in CON]
        path = os.path.join(ex.dir, 'conc.ndjson'); sr.write_trace(path, evs)
        r = c.trace_validate('ConcTrace', cfg, path, timeout=900, heap='4g')
        return ex, evs, r, path
    todo = []
    for ex in execs:
        if ex.rc == 3 or ex.timed_out:
            st['hangs'] += 1
            if prop == 'C09':
                _hang(prop, exe, ex, cfg, out)
            continue
        if ex.rc != 0:
            ex2 = CExec(ex.seed, ex.threads, ex.ops, ex.mode); run_conc(exe, ex2)
            if ex2.rc in (0, 3): raise Broken('conc driver failure not reproducible: rc=%s %s' % (ex.rc, ex.err))
            d = c.replay_dir(prop, 'conc'); json.dump(dict(kind='conc', prop=prop, exec=ex.desc(), why='exit %s' % ex.rc), open(os.path.join(d, 'replay.json'), 'w'))
            out.violation('concurrent execution crashed (exit %s): %s' % (ex.rc, ex.desc()), d, dict(kind='driver_exit'))
            if ex2.dir: c.rmtree(ex2.dir)
            continue
        todo.append(ex)
    sample = None
    for ex, evs, r, path in c.pmap(validate, todo, 6):
        st['states'] += r['res'].distinct; st['transitions'] += r['res'].generated; st['events'] += len(evs)
        st['groups_multi'] += sum(1 for e in evs if e['e'] == 'WGroup' and len(e['members']) > 1)
        if sample is None:
            for i, e in enumerate(evs):
                if e['e'] == 'WGroup' and len(e['members']) > 1:
                    sample = [{k: v for k, v in x.items() if k != 'n'} for x in evs[max(0, i - 3):i + 9]]; break
        if r['accepted'] or out.full():
            continue
        _report(prop, exe, ex, evs, r, path, cfg, out)
    st['sample'] = sample or []
    if prop != 'C09' and st['hangs'] == len(execs):
        raise Broken('every concurrent execution hung; nothing was validated (see C09)')
    for ex in execs:
        if ex.dir: c.rmtree(ex.dir)


def _hang(prop, exe, ex, cfg, out):
    """A run in which no API call completed for 20 s. Reported when (a) the recorded prefix shows a missing wake-up
    (rejected by ConcTrace) or (b) the hang repeats with the same seed."""
    evs = [e for e in sr.load_events(ex.trace) if e['e'] in CON and e['e'] != 'Hang']
    path = os.path.join(ex.dir, 'conc.ndjson'); sr.write_trace(path, evs)
    r = c.trace_validate('ConcTrace', cfg, path, timeout=900, heap='4g')
    rejected = (not r['accepted']) and (r['violated'] is not None or (r['prefix'] is not None and r['prefix'] < len(evs)))
    repeat = False
    if not rejected:
        for _ in range(2):
            ex2 = CExec(ex.seed, ex.threads, ex.ops, ex.mode); run_conc(exe, ex2)
            if ex2.dir: c.rmtree(ex2.dir)
            if ex2.rc == 3 or ex2.timed_out:
                repeat = True; break
    if not (rejected or repeat):
        raise Broken('a hang did not repeat and its trace prefix validates: seed=%d' % ex.seed)
    d = c.replay_dir(prop, 'hang')
    shutil.copy(path, os.path.join(d, 'conc_trace.ndjson'))
    bad = evs[r['prefix']] if rejected and r['prefix'] is not None and r['prefix'] < len(evs) else None
    json.dump(dict(kind='conc', prop=prop, exec=ex.desc(), why='hang', rejected_event=bad, cfg=cfg), open(os.path.join(d, 'replay.json'), 'w'), indent=1)
    out.violation('calls stopped returning (hang) in %s%s' % (ex.desc(), '; first unexplained event: %s' % json.dumps(bad)[:200] if bad else ''), d,
                  dict(kind='hang'))


def _report(prop, exe, ex, evs, r, path, cfg, out):
    idx = r['prefix'] if r['prefix'] is not None else 0
    bad = evs[idx] if idx < len(evs) else None
    # reproduce: schedules differ between runs, so the same KIND of rejection must show up again within a few runs
    rep = False
    for k in range(4):
        ex2 = CExec(ex.seed if k == 0 else ex.seed + 7919 * k, ex.threads, ex.ops, ex.mode); run_conc(exe, ex2)
        if ex2.rc == 0:
            evs2 = [e for e in sr.load_events(ex2.trace) if e['e'] in CON]
            p2 = os.path.join(ex2.dir, 'conc.ndjson'); sr.write_trace(p2, evs2)
            r2 = c.trace_validate('ConcTrace', cfg, p2, timeout=900, heap='4g')
            if not r2['accepted']:
                rep = True    # schedules differ between runs: the rejected event may be another observation of the same defect
        elif ex2.rc == 3:
            rep = True
        if ex2.dir: c.rmtree(ex2.dir)
        if rep: break
    if not rep:
        # keep the evidence: a schedule-dependent rejection that does not recur is not reported as a violation, but it must be inspectable
        d = c.replay_dir(prop, 'unrepeated'); shutil.copy(path, os.path.join(d, 'conc_trace.ndjson'))
        if ex.trace and os.path.exists(ex.trace): shutil.copy(ex.trace, os.path.join(d, 'full_trace.ndjson'))
        json.dump(dict(kind='conc', prop=prop, exec=ex.desc(), cfg=cfg, line=idx, event=bad, context=evs[max(0, idx - 12):idx + 1]), open(os.path.join(d, 'replay.json'), 'w'), indent=1)
        c.save_tv(d)
        raise Broken('ConcTrace rejection did not repeat in 4 further runs: %s at %s (kept in %s)' % (ex.desc(), json.dumps(bad)[:200], d))
    d = c.replay_dir(prop, 'conc')
    shutil.copy(path, os.path.join(d, 'conc_trace.ndjson'))
    ctx = evs[max(0, idx - 12):idx + 1]
    json.dump(dict(kind='conc', prop=prop, exec=ex.desc(), cfg=cfg, violated=r['violated'], line=idx, event=bad, context=ctx), open(os.path.join(d, 'replay.json'), 'w'), indent=1)
    open(os.path.join(d, 'README'), 'w').write('Reproduce: cd /verif && ./check replay %s\nConcTrace (%s) cannot explain event #%d: %s\n' % (d, cfg, idx, json.dumps(bad)))
    out.violation('ConcTrace rejects event #%d %s (%s)' % (idx, json.dumps(bad)[:260], ex.desc()), d, dict(kind='conc', event=(bad or {}).get('e')))


def conc_mc(cfgname, prop, out, st):
    r = c.tlc('Conc', cfgname + '.cfg', workers=c.NCPU, timeout=1500, heap='12g', deadlock=False)
    if r.error and not r.violated:
        raise Broken('Conc model checking failed: %s' % r.error)
    st.update(dict(states=r.distinct, transitions=r.generated, depth=r.depth, cfg=cfgname, wall_s=round(r.wall, 1), liveness_checked=True))
    if r.violated:
        d = c.replay_dir(prop, 'mc'); open(os.path.join(d, 'tlc.out'), 'w').write(r.out)
        json.dump(dict(kind='mc', prop=prop, module='Conc', cfg=cfgname + '.cfg', violated=r.violated), open(os.path.join(d, 'replay.json'), 'w'))
        out.violation('Conc.tla: %s violated in the design model' % r.violated, d, dict(kind='mc', violated=r.violated))


def open_backlog_layer(prop, tier, seed, out, mc):
    """The shape of the Conc.tla counterexample for ScheduleAtOpen = FALSE, on the real code: a big log is recovered with a
    small write buffer, so the database comes up with a level-0 backlog at / above the stop trigger; writes made right after the
    open must return (the open itself has to schedule the compaction that drains level 0)."""
    from . import p_api
    lib = c.build_lib(); exe = c.build_driver('seq', lib)
    st = dict(executions=0, states=0, transitions=0, l0_at_open=[])
    d = c.scratch('obl')
    for vi, (nbig, wbuf) in enumerate([(16, 65536), (13, 32768)] if tier == 'quick' else [(16, 65536), (13, 32768), (20, 65536), (12, 16384), (30, 131072)]):
        lines = ['put %d 100000' % (i % 16) for i in range(nbig)] + ['wbuf %d' % wbuf, 'reopenraw'] + ['put %d 70000' % (i % 16) for i in range(6)] + ['getall', 'scan']
        sp = os.path.join(d, 'ob%d.txt' % vi); open(sp, 'w').write('\n'.join(lines) + '\n')
        ex = sr.Exec(seed * 100 + vi, 0, 'mixed', bits=1 << 17); sr.run_exec(exe, ex, env={'VERIF_SCRIPT': sp}, timeout=150)
        if ex.rc != 0:
            ex2 = sr.Exec(seed * 100 + vi, 0, 'mixed', bits=1 << 17); sr.run_exec(exe, ex2, env={'VERIF_SCRIPT': sp}, timeout=150)
            if ex2.rc == 0: raise Broken('open-backlog run failed once and passed once (rc=%s)' % ex.rc)
            evs = sr.load_events(ex2.trace) if ex2.trace and os.path.exists(ex2.trace) else []
            rd = c.replay_dir(prop, 'backlog'); shutil.copy(sp, os.path.join(rd, 'script.txt'))
            last = [e for e in evs if e['e'] in ('put', 'reopen', 'call_write', 'RoomWait', 'BgSched')][-4:]
            json.dump(dict(kind='script', prop=prop, bits=1 << 17, why='calls after an open with a level-0 backlog do not return' if getattr(ex2, 'timed_out', False) else 'exit %s' % ex2.rc, last_events=last), open(os.path.join(rd, 'replay.json'), 'w'), indent=1)
            out.violation('a write after opening a database with a level-0 backlog never returned (%d values of 100 KB recovered with a %d byte write buffer): %s' % (nbig, wbuf, json.dumps(last)[:300]), rd, dict(kind='hang_open'))
            if ex2.dir: c.rmtree(ex2.dir)
            if ex.dir: c.rmtree(ex.dir)
            continue
        evs = sr.load_events(ex.trace)
        st['executions'] += 1
        for e in evs:
            if e['e'] == 'RecoverManifest' or (e['e'] == 'VersionInstall' and e.get('manifest')):
                pass
        opens = [e for e in evs if e['e'] == 'OpenDone']
        l0 = 0
        for e in evs:
            if e['e'] == 'VersionInstall': l0n = sum(1 for f in e['files'] if f[0] == 0); l0 = max(l0, l0n)
        st['l0_at_open'].append(l0)
        keep = p_api.PLANS['C01'][0]
        api = [e for e in evs if keep(e)]
        tp = os.path.join(ex.dir, 'api.ndjson'); sr.write_trace(tp, api)
        r = c.trace_validate('KvTrace', 'KvTrace.cfg', tp)
        st['states'] += r['res'].distinct; st['transitions'] += r['res'].generated
        if not r['accepted']:
            rd = c.replay_dir(prop, 'backlog'); shutil.copy(sp, os.path.join(rd, 'script.txt')); shutil.copy(tp, os.path.join(rd, 'trace.ndjson'))
            json.dump(dict(kind='script', prop='C01', bits=1 << 17, why='KvTrace rejects the run'), open(os.path.join(rd, 'replay.json'), 'w'))
            out.violation('reads after an open with a level-0 backlog are wrong (KvTrace rejects)', rd, dict(kind='api'))
        c.rmtree(ex.dir)
    if st['l0_at_open'] and max(st['l0_at_open']) < 12:
        raise Broken('the open-backlog scenario did not reach the level-0 stop trigger: %s' % st['l0_at_open'])
    c.rmtree(d)
    mc['OpenBacklog'] = st


def calls_after_error_layer(prop, tier, seed, out, mc):
    """Every call returns also once the database has latched a background error: the fault-injection workloads of C12 (writes,
    forced flushes, manual compactions of every level, close / open cycles) are run with a PERSISTENT failure armed at sites spread
    over the run; only what C09 states is judged here - an execution that stops returning (twice, with the same site) is a violation,
    what the calls answer is C12's business."""
    from . import p_disk
    lib = c.build_lib(); exe = c.build_driver('crash', lib)
    st = dict(executions=0, hangs=0, sites=0)
    for wi, (wseed, bits, nb) in enumerate([(seed * 1000 + 61, 0x000, 40)] if tier == 'quick' else [(seed * 1000 + 61 + i, b, 60) for i, b in enumerate([0x000, 0x800, 0x102])]):
        d = c.scratch('ce'); j = os.path.join(d, 'journal')
        p = c.sh([exe, 'record', str(wseed), os.path.join(d, 'db'), j, str(bits), str(nb), '1'], timeout=120, env=dict(FAULT_K=10 ** 9, FAULT_PERSIST=0, FAULT_ERRNO=28))
        if p.returncode != 0: raise Broken('calls-after-error baseline failed rc=%s %s' % (p.returncode, p.stderr[-300:]))
        n = 0
        for text in p_disk.marks_of(j):
            if text.startswith('count '): n = int(text.split(' ')[1])
        c.rmtree(d)
        if n <= 0: raise Broken('no eligible calls counted')
        ks = sorted(set(max(1, n * i // (16 if tier == 'quick' else 60)) for i in range(1, (16 if tier == 'quick' else 60))))
        res = c.pmap(lambda k: p_disk.fault_run(exe, wseed, bits, nb, k % 2, k, 1, 28 if k % 3 else 5), ks, c.NCPU)
        st['sites'] += len(ks)
        for k, r in zip(ks, res):
            st['executions'] += 1
            if r.get('fail') in ('hang', 'recover hang'):
                r2 = p_disk.fault_run(exe, wseed, bits, nb, k % 2, k, 1, 28 if k % 3 else 5)
                if r2.get('fail') != r.get('fail'): continue
                st['hangs'] += 1
                rd = c.replay_dir(prop, 'errhang')
                json.dump(dict(kind='fault', workload=dict(seed=wseed, bits=bits, nb=nb), site=r['info'], why=r['fail']), open(os.path.join(rd, 'replay.json'), 'w'), indent=1)
                out.violation('a call made after a latched background error never returned (persistent failure of eligible system call %d, workload seed=%d): %s' % (k, wseed, r['fail']), rd, dict(kind='hang_after_error'))
                if out.full(): break
    mc['CallsAfterError'] = st


def run_conc_prop(prop, tier, seed):
    t0 = time.time()
    out = Outcome(prop)
    st = {}; mc = {}
    conc_layer(prop, 'ConcTrace_%s.cfg' % prop, tier, seed, out, st)
    conc_mc('Conc_quick' if tier == 'quick' else 'Conc_thorough', prop, out, mc)
    if prop == 'C09' and not out.full():
        open_backlog_layer(prop, tier, seed, out, mc)
    if prop == 'C09' and not out.full():
        calls_after_error_layer(prop, tier, seed, out, mc)
    sample = st.pop('sample', [])
    cov = dict(states=st.get('states', 0) + mc.get('states', 0), transitions=st.get('transitions', 0) + mc.get('transitions', 0),
               traces_validated_against_impl=st.get('executions', 0) - st.get('hangs', 0), samples=[sample], conc_trace=st, conc_mc=mc, exhaustive=False)
    rc = out.finish()
    c.write_evidence(prop, tier, seed, 'model_checking', cov, time.time() - t0, violations=len(out.violations),
                     assumptions=['schedules of the real code are sampled (OS scheduler + seeded delay points), not enumerated; enumeration is on the model Conc.tla',
                                  'hook events are emitted under db->mutex (or by the single owner of an unlocked step) and ordered by one atomic counter',
                                  'close is never raced with foreground calls on the real code (API contract); that case is model-only'])
    return rc


CHECKS = {
    'C08': lambda tier, seed: run_conc_prop('C08', tier, seed),
    'C09': lambda tier, seed: run_conc_prop('C09', tier, seed),
}


# =============================================================================================
# C10 (partial claim): lock discipline (Eraser over access events) + publication order (Publish.tla)
# =============================================================================================
import re


def extract_orders(repo):
    """Memory orders at the named publication sites, read from the source (static conformance step)."""
    src = open(os.path.join(repo, 'src', 'skiplist.c')).read()
    out = {}

    def body(name):
        m = re.search(r'\n' + name + r'\([^)]*\)\s*\{(.*?)\n\}', src, re.S)
        return m.group(1) if m else None
    b = body('ldb_skipnode_set')
    m = re.search(r'ldb_atomic_store_ptr\([^;]*?(ldb_order_\w+)\)', b or '')
    out['publish'] = m.group(1).replace('ldb_order_', '') if m else None
    b = body('ldb_skipnode_next')
    m = re.search(r'ldb_atomic_load_ptr\([^;]*?(ldb_order_\w+)\)', b or '')
    out['read'] = m.group(1).replace('ldb_order_', '') if m else None
    ins = body('ldb_skiplist_insert') or ''
    out['insert_publishes_with_barrier'] = bool(re.search(r'ldb_skipnode_set\(prev\[i\], i, x\)', ins))
    readers_ok = True
    for fn in ('ldb_skiplist_find_ge', 'ldb_skiplist_find_lt', 'ldb_skiplist_find_last'):
        fb = body(fn)
        if fb is None: readers_ok = None; break
        if 'ldb_skipnode_next_nb(' in fb: readers_ok = False
    out['readers_use_acquire_loads'] = readers_ok
    return out


PIN_OBJS = ('tcpin', 'lrurel', 'tbluse', 'tblfree')


def run_c10(tier, seed):
    prop = 'C10'
    t0 = time.time(); out = Outcome(prop); quick = tier == 'quick'
    lib = c.build_lib(); exe = c.build_driver('conc', lib)
    runs = [(2, 120, 'mix'), (4, 100, 'mix'), (6, 80, 'mix'), (8, 60, 'mix'), (4, 100, 'stall')] if quick else [(t, o, m) for _ in range(20) for (t, o, m) in [(2, 200, 'mix'), (4, 150, 'mix'), (6, 120, 'mix'), (8, 100, 'mix'), (4, 150, 'stall'), (8, 80, 'stall')]]
    execs = [CExec(seed * 10000 + 500 + i, t, o, m) for i, (t, o, m) in enumerate(runs)]
    c.pmap(lambda ex: run_conc(exe, ex, extra_env={'LCDB_VERIF_ACC': '1'}), execs, 6)
    st = dict(executions=0, accesses=0, objects=set(), states=0)

    def validate(ex):
        allev = [e for e in sr.load_events(ex.trace) if e['e'] in ('Acc', 'CloseWaited', 'Reset', 'open')]
        evs = [e for e in allev if e.get('obj') not in PIN_OBJS]
        path = os.path.join(ex.dir, 'acc.ndjson'); sr.write_trace(path, evs)
        # the pin protocol of the table cache (PinTrace.tla) over the same run
        pev = [e for e in allev if e['e'] != 'Acc' or e.get('obj') in PIN_OBJS]
        ppath = os.path.join(ex.dir, 'pin.ndjson'); sr.write_trace(ppath, pev)
        ex.pin = (pev, c.trace_validate('PinTrace', 'PinTrace.cfg', ppath, timeout=900, heap='4g'), ppath)
        return ex, evs, c.trace_validate('LocksetTrace', 'LocksetTrace.cfg', path, timeout=900, heap='4g'), path
    sample = None
    for ex, evs, r, path in c.pmap(validate, [e for e in execs if e.rc == 0], 6):
        st['executions'] += 1; st['accesses'] += sum(1 for e in evs if e['e'] == 'Acc'); st['states'] += r['res'].distinct
        for e in evs:
            if e['e'] == 'Acc': st['objects'].add(e['obj'])
        if sample is None: sample = [{k: v for k, v in e.items() if k != 'n'} for e in evs[10:18]]
        if not r['accepted'] and not out.full():
            idx = r['prefix'] or 0
            bad = evs[idx] if idx < len(evs) else None
            d = c.replay_dir(prop, 'lockset'); shutil.copy(path, os.path.join(d, 'acc_trace.ndjson'))
            json.dump(dict(kind='conc', prop=prop, exec=ex.desc(), violated=r['violated'], line=idx, event=bad), open(os.path.join(d, 'replay.json'), 'w'), indent=1)
            out.violation('shared object %s is modified by several threads with no common lock (access %s)' % ((bad or {}).get('obj'), json.dumps(bad)[:200]), d,
                          dict(kind='lockset', obj=(bad or {}).get('obj')))
    st['pin_events'] = 0; st['pin_lookups'] = 0
    for ex in execs:
        if ex.rc != 0 or not hasattr(ex, 'pin'): continue
        pev, pr, ppath = ex.pin
        st['pin_events'] += len(pev); st['pin_lookups'] += sum(1 for e in pev if e.get('obj') == 'tbluse' and e.get('w') == 1); st['states'] += pr['res'].distinct
        if not pr['accepted'] and not out.full():
            idx = pr['prefix'] or 0
            bad = pev[idx] if idx < len(pev) else None
            d = c.replay_dir(prop, 'pin'); shutil.copy(ppath, os.path.join(d, 'pin_trace.ndjson'))
            json.dump(dict(kind='conc', prop=prop, exec=ex.desc(), line=idx, event=bad, context=pev[max(0, idx - 6):idx + 1]), open(os.path.join(d, 'replay.json'), 'w'), indent=1)
            out.violation('table-cache pin protocol broken: a table is used without a pin held by the using thread, or destroyed while in use (%s)' % json.dumps(bad)[:200], d,
                          dict(kind='pin', obj=(bad or {}).get('obj')))
    for ex in execs:
        if ex.dir: c.rmtree(ex.dir)
    st['objects'] = sorted(st['objects'])
    # publication order: constants from the source, checked by TLC
    orders = extract_orders(c.REPO)
    pub = dict(orders=orders, covered=False)
    if orders['publish'] and orders['read'] and orders['readers_use_acquire_loads'] is not None:
        pub['covered'] = True
        d = c.scratch('pub'); cfgp = os.path.join(d, 'pub.cfg')
        po = orders['publish'] if orders['insert_publishes_with_barrier'] else 'relaxed'
        ro = orders['read'] if orders['readers_use_acquire_loads'] else 'relaxed'
        open(cfgp, 'w').write('SPECIFICATION Spec\nCONSTANTS\n  Nodes = {1, 2}\n  Readers = {1, 2}\n  PublishOrder = "%s"\n  ReadOrder = "%s"\nINVARIANT NoUninitRead\nCHECK_DEADLOCK FALSE\n' % (po, ro))
        r = c.tlc('Publish', cfgp, workers=2, timeout=120, deadlock=False)
        pub.update(states=r.distinct, publish_order=po, read_order=ro)
        if r.violated:
            rd = c.replay_dir(prop, 'publish'); open(os.path.join(rd, 'tlc.out'), 'w').write(r.out)
            json.dump(dict(kind='mc', module='Publish', orders=orders), open(os.path.join(rd, 'replay.json'), 'w'))
            out.violation('skiplist publication is not release/acquire ordered (publish=%s read=%s): a reader can dereference an uninitialised node' % (po, ro), rd, dict(kind='publish'))
        c.rmtree(d)
    rc = out.finish()
    cov = dict(explanation='Partial claim (see DESIGN.md section 7): (a) Eraser lockset discipline over the instrumented shared objects %s in %d real multi-threaded executions (%d accesses), decided by TLC on LocksetTrace.tla; (b) memory orders at the skiplist publication sites extracted from the source and model-checked in Publish.tla. An unsynchronised access to an un-instrumented field is invisible to this check.' % (st['objects'], st['executions'], st['accesses']),
               evaluations=max(1, st['accesses']), distinct_nontrivial=max(2, len(st['objects'])), samples=[sample or []], lockset=st, publish=pub, states=st['states'] + pub.get('states', 0))
    c.write_evidence(prop, tier, seed, 'other', cov, time.time() - t0, violations=len(out.violations),
                     assumptions=['only the declared synchronisation protocol is checked: instrumented objects and named publication sites',
                                  'accesses after the close handshake are ordered by thread join and start a new epoch'])
    return rc


CHECKS['C10'] = run_c10
