"""Genuine LevelDB as reference decoder (harness/proj/ldbref.cc)."""
import os, subprocess
from . import common as c

_exe = None
CMPS = {0: 'bytewise', 1: 'reverse', 2: 'lenfirst'}


def build():
    global _exe
    src = os.path.join(c.HARNESS, 'proj', 'ldbref.cc')
    key = c._sha(open(src, 'rb').read())
    bindir = os.path.join(c.BUILD, 'bin'); os.makedirs(bindir, exist_ok=True)
    exe = os.path.join(bindir, 'ldbref_' + key)
    if not os.path.exists(exe):
        tmp = exe + '.tmp%d' % os.getpid()
        c.sh(['g++', '-O1', '-std=c++17', src, '-lleveldb', '-lsnappy', '-lpthread', '-o', tmp], check=True, timeout=300)
        os.replace(tmp, exe)
    _exe = exe
    return exe


def exe():
    return _exe or build()


def table_entries(paths, cmp=0):
    """-> {path: [(userkey bytes, seq, type, vallen, valhead bytes)]}; raises Broken on decode error."""
    if not paths:
        return {}
    p = c.sh([exe(), 'table', '--cmp=' + CMPS[cmp]] + list(paths), timeout=300)
    out = {}; cur = None
    for ln in p.stdout.split('\n'):
        if ln.startswith('FILE '):
            cur = ln.split(' ')[1]; out[cur] = []
        elif ln.startswith('E '):
            f = ln.split(' ')
            out[cur].append((bytes.fromhex(f[1]), int(f[2]), int(f[3]), int(f[4]), bytes.fromhex(f[5]) if len(f) > 5 else b''))
        elif ln.startswith('ERR'):
            raise TableError(ln)
    return out


class TableError(Exception):
    pass
