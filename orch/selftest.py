"""./check selftest [name ...]: binding demonstration. Every patch under mutants/ (named <check>_<what>.diff; D<n>_revert.diff
re-introduce a fixed defect) and every seeded/<id>/patch.diff is applied to a scratch worktree of /repo (never to /repo itself),
the property's quick check is run against it with LCDB_REPO, and a VIOLATION (exit 1) is expected. Not registered in MANIFEST:
it takes hours for the whole catalogue; names select a subset."""
import json, os, subprocess, sys, time
from . import common as c

REVERTS = {'D2': 'C12', 'D3': 'C05', 'D4': 'C20', 'D5': 'C02', 'D6': 'C12', 'D7': 'C12', 'D8': 'C15'}


def catalogue():
    out = []
    md = os.path.join(c.VERIF, 'mutants')
    for fn in sorted(os.listdir(md)):
        if not fn.endswith('.diff'): continue
        name = fn[:-5]; head = name.split('_')[0]
        out.append((name, os.path.join(md, fn), REVERTS.get(head, head)))
    sd = os.path.join(c.VERIF, 'seeded')
    for n in sorted(os.listdir(sd)):
        p = os.path.join(sd, n, 'patch.diff')
        if os.path.exists(p):
            out.append(('seed_' + n, p, json.load(open(os.path.join(sd, n, 'meta.json'))).get('property', n[:3])))
    return out


def run(names):
    cat = [x for x in catalogue() if not names or x[0] in names or x[2] in names]
    if not cat:
        print('nothing selected; available: %s' % ' '.join(x[0] for x in catalogue())); return 2
    bad = 0
    for name, patch, prop in cat:
        w = '/tmp/selftest_%d_%s' % (os.getpid(), name)
        subprocess.run(['git', '-C', '/repo', 'worktree', 'add', '-q', '--detach', w, 'HEAD'], check=True)
        try:
            a = subprocess.run(['git', '-C', w, 'apply', patch], capture_output=True, text=True)
            if a.returncode != 0:
                print('%-28s %-4s patch does not apply to HEAD: %s' % (name, prop, a.stderr.strip()[:120])); bad += 1; continue
            t0 = time.time()
            env = dict(os.environ); env['LCDB_REPO'] = w
            p = subprocess.run([os.path.join(c.VERIF, 'check'), prop, 'quick'], capture_output=True, text=True, env=env, cwd=c.VERIF)
            viol = [l for l in p.stdout.split('\n') if l.startswith('VIOLATION')]
            ok = p.returncode == 1 and viol
            print('%-28s %-4s %s (exit %d, %d VIOLATION lines, %.0f s)' % (name, prop, 'detected' if ok else 'NOT DETECTED', p.returncode, len(viol), time.time() - t0), flush=True)
            if not ok: bad += 1
        finally:
            subprocess.run(['git', '-C', '/repo', 'worktree', 'remove', '--force', w])
    # evidence files were rewritten by runs against changed code: restore the committed ones
    subprocess.run(['git', '-C', c.VERIF, 'checkout', '--', 'evidence'], capture_output=True)
    return 1 if bad else 0
