"""Running the single-threaded driver, slicing its trace into layers, validating batches with TLC."""
import json, os, time
from . import common as c
from .common import Broken, log

API_WRITES = {'put', 'del', 'batch'}
API_STUTTER = {'flush', 'compact', 'compact_all', 'reopen', 'Reset'}
API_ALL = API_WRITES | API_STUTTER | {'get', 'has', 'snap', 'rel', 'iter_new', 'iter_free', 'it', 'scan'}


class Exec:
    def __init__(self, seed, steps, profile, bits=None):
        self.seed = seed; self.steps = steps; self.profile = profile; self.bits = bits
        self.trace = None; self.rc = None; self.err = ''; self.dir = None; self.wall = 0

    def desc(self):
        return dict(seed=self.seed, steps=self.steps, profile=self.profile, bits=self.bits)


def run_exec(exe, ex, keep_db=False, env=None, timeout=None):
    if timeout is None:
        timeout = 120 + int(ex.steps * 0.25)      # long runs on a loaded machine (thorough tier runs 16 at a time)
    d = c.scratch('seq')
    ex.dir = d
    ex.trace = os.path.join(d, 'trace.ndjson')
    cmd = [exe, str(ex.seed), str(ex.steps), ex.trace, os.path.join(d, 'db'), ex.profile]
    if ex.bits is not None:
        cmd.append(str(ex.bits))
    e = dict(env or {})
    if keep_db: e['VERIF_KEEP_DB'] = '1'
    t0 = time.time()
    p = c.sh(cmd, timeout=timeout, env=e)
    ex.wall = time.time() - t0
    ex.rc = p.returncode; ex.err = (p.stderr or '')[-2000:]
    ex.timed_out = getattr(p, 'timed_out', False)
    return ex


def run_campaign(exe, execs, keep_db=False, env=None, nproc=c.NCPU):
    return c.pmap(lambda ex: run_exec(exe, ex, keep_db, env), execs, nproc)


def load_events(path):
    out = []
    with open(path) as f:
        for ln in f:
            ln = ln.strip()
            if not ln:
                continue
            try:
                out.append(json.loads(ln))
            except ValueError:
                # a torn last line can only come from a killed process
                break
    return out


def api_slice(events, keep):
    """Select the API-level events in `keep` (pure observations may be dropped soundly)."""
    return [e for e in events if e['e'] in keep]


def write_trace(path, events):
    with open(path, 'w') as f:
        for e in events:
            f.write(json.dumps(e, separators=(',', ':')) + '\n')


def validate_batches(module, cfg, per_exec_events, batch_lines=6000, nproc=6, timeout=900, heap='4g'):
    """Concatenate executions (each starts with a Reset event) into batches and validate them in parallel JVMs.
    Returns list of dict(batch, accepted, violated, prefix, exec_index, line_in_exec, states, res)."""
    batches = []; cur = []; curmap = []; n = 0
    for i, evs in enumerate(per_exec_events):
        if n and n + len(evs) > batch_lines:
            batches.append((cur, curmap)); cur = []; curmap = []; n = 0
        curmap.append((i, n, len(evs)))
        cur.extend(evs); n += len(evs)
    if cur:
        batches.append((cur, curmap))
    d = c.scratch('tv')

    def one(bi):
        evs, emap = batches[bi]
        path = os.path.join(d, 'batch%d.ndjson' % bi)
        write_trace(path, evs)
        r = c.trace_validate(module, cfg, path, timeout=timeout, heap=heap)
        out = dict(batch=bi, path=path, accepted=r['accepted'], violated=r['violated'], prefix=r['prefix'], lines=r['lines'],
                   states=r['res'].distinct, generated=r['res'].generated, res=r['res'], exec_index=None, line_in_exec=None)
        if not r['accepted']:
            pre = r['prefix'] or 0
            for (ei, off, ln) in emap:
                if off <= pre < off + ln:
                    out['exec_index'] = ei; out['line_in_exec'] = pre - off
            if out['exec_index'] is None and emap:
                out['exec_index'] = emap[-1][0]; out['line_in_exec'] = emap[-1][2] - 1
        return out
    return c.pmap(one, list(range(len(batches))), nproc)
