"""./check setup: build everything that can be built ahead of time, parse every TLA+ module."""
import glob, os, sys
from . import common as c


def run():
    ok = True
    lib = c.build_lib()
    for drv in sorted(glob.glob(os.path.join(c.HARNESS, 'drv', '*.c'))):
        name = os.path.basename(drv)[:-2]
        try:
            c.build_driver(name, lib, shim=(name != 'wfile'))   # wfile.c brings its own write() / fsync()
        except c.Broken as ex:
            print('driver %s failed to build: %s' % (name, ex)); ok = False
    mods = sorted(glob.glob(os.path.join(c.SPEC, '*.tla')))

    def parse(m):
        td = c.scratch('sany')     # SANY unpacks the standard modules into java.io.tmpdir
        p = c.sh(['java', '-Djava.io.tmpdir=' + td, '-cp', c.TLA_CP, 'tla2sany.SANY', os.path.basename(m)], cwd=c.SPEC, timeout=120)
        c.rmtree(td)
        return m, ('Semantic errors' in p.stdout or 'Parse Error' in p.stdout or 'Fatal' in p.stdout or p.returncode != 0), p.stdout[-800:]
    for m, bad, out in c.pmap(parse, mods, 8):
        if bad:
            print('SANY failed on %s:\n%s' % (m, out)); ok = False
    try:
        from . import ldbref
        ldbref.build()
    except ImportError:
        pass
    except c.Broken as ex:
        print('reference decoder build failed: %s' % ex); ok = False
    print('setup %s: %d modules parsed' % ('ok' if ok else 'FAILED', len(mods)))
    return 0 if ok else 2
