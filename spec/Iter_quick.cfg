SPECIFICATION Spec
CONSTANTS
  NKeys = 3
  MaxSeq = 4
  NCh = 2
  Snaps = {3}
  MaxOps = 60
  Incremental = FALSE
  Emit = 0
VIEW view
INVARIANT Agree
INVARIANT ForwardHasCurrent
CHECK_DEADLOCK FALSE
