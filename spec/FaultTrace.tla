---------------------------- MODULE FaultTrace ----------------------------
(* C12: a file-system call fails (once or persistently) somewhere in a write / flush / compaction       *)
(* history.  The trace holds the application's view (begin / ack with status, reads while the fault is *)
(* active) and what the real library recovered after the fault cleared and the database was closed or  *)
(* killed and reopened.  An API call may return OK only if everything its promise depends on           *)
(* succeeded: so every write acknowledged with rc = 0 - before or after the failure - must be present. *)
EXTENDS Naturals, Integers, Sequences, FiniteSets, TLC, Json, IOUtils

T == ndJsonDeserialize(IOEnv.TRACE)
Bat == T[1].batches
NDK == 12
DKeys == 0..(NDK - 1)
VARIABLES l, begun, ackedAll, failed, fired, rec, rd
vars == <<l, begun, ackedAll, failed, fired, rec, rd>>
NoRec == [cls |-> "none"]
NoRead == [k |-> -1]
Init == l = 2 /\ begun = {} /\ ackedAll = {} /\ failed = {} /\ fired = 0 /\ rec = NoRec /\ rd = NoRead
Ev == T[l]
Is(e) == l <= Len(T) /\ Ev.e = e /\ l' = l + 1

TBegin == Is("begin") /\ begun' = begun \cup {Ev.b} /\ rec' = NoRec /\ rd' = NoRead /\ UNCHANGED <<ackedAll, failed, fired>>
TAck == /\ Is("ack") /\ Ev.b \in begun
        /\ IF Ev.rc = 0 THEN ackedAll' = ackedAll \cup {Ev.b} /\ UNCHANGED failed
                        ELSE failed' = failed \cup {Ev.b} /\ UNCHANGED ackedAll
        /\ rec' = NoRec /\ rd' = NoRead /\ UNCHANGED <<begun, fired>>
TFault == Is("fault") /\ fired' = Ev.count /\ rec' = NoRec /\ rd' = NoRead /\ UNCHANGED <<begun, ackedAll, failed>>
TRead == Is("read") /\ rd' = Ev /\ rec' = NoRec /\ UNCHANGED <<begun, ackedAll, failed, fired>>
TNote == Is("note") /\ rec' = NoRec /\ rd' = NoRead /\ UNCHANGED <<begun, ackedAll, failed, fired>>
TRecovered == Is("Recovered") /\ rec' = Ev /\ rd' = NoRead /\ UNCHANGED <<begun, ackedAll, failed, fired>>
TReset == Is("Reset") /\ begun' = {} /\ ackedAll' = {} /\ failed' = {} /\ fired' = 0 /\ rec' = NoRec /\ rd' = NoRead
Next == TBegin \/ TAck \/ TFault \/ TRead \/ TNote \/ TRecovered \/ TReset
Spec == Init /\ [][Next]_vars

RECURSIVE ApplyKv(_, _)
ApplyKv(m, ops) == IF ops = <<>> THEN m ELSE ApplyKv([m EXCEPT ![Head(ops)[1]] = Head(ops)[2]], Tail(ops))
RECURSIVE FoldFrom(_, _, _)
FoldFrom(m, b, S) == IF b > Len(Bat) THEN m ELSE FoldFrom(TLCEval(IF b \in S THEN ApplyKv(m, Bat[b].ops) ELSE m), b + 1, S)
Fold(S) == FoldFrom([k \in DKeys |-> 0], 1, S)
DataOf(pairs) == ApplyKv([k \in DKeys |-> 0], pairs)
SetOf(s) == {s[j] : j \in 1..Len(s)}
IsRec == rec.cls # "none"

\* the process neither crashed nor hung, and the database opens once the fault has cleared
FaultOpenOkC == IsRec => rec.rc = 0 /\ rec.status = 0 /\ rec.bad = 0 /\ rec.getmismatch = 0
\* every write that returned success, before or after the failure, is still present
FaultAckedSurviveC == (IsRec /\ rec.rc = 0) => ackedAll \subseteq SetOf(rec.markers)
\* nothing that was never issued; failed / in-flight writes may or may not be present, but only whole
FaultNothingElseC == (IsRec /\ rec.rc = 0) => SetOf(rec.markers) \subseteq begun
FaultAtomicC == (IsRec /\ rec.rc = 0) => DataOf(rec.data) = Fold(SetOf(rec.markers))
\* reads keep returning correct data: the latest acknowledged value, the value of a write whose outcome was
\* reported as an error (indeterminate), or an error status - never anything else
FailedVals(k) == UNION {{Bat[b].ops[j][2] : j \in {x \in 1..Len(Bat[b].ops) : Bat[b].ops[x][1] = k}} : b \in failed \cup (begun \ ackedAll)}
FaultReadsCorrectC == rd.k >= 0 =>
                       \/ rd.rc # 0 /\ rd.rc # 30001 /\ rd.v = 0 /\ fired > 0            \* an error status while a fault is active
                       \/ rd.v = Fold(ackedAll)[rd.k] /\ rd.rc = (IF rd.v = 0 THEN 30001 ELSE 0)
                       \/ rd.v \in FailedVals(rd.k)

\* a violated invariant prints the trace position, so the orchestrator need not wait for TLC to rebuild the behaviour
ViolAt(name) == PrintT(<<"pr", name, l>>)
FaultOpenOk == FaultOpenOkC \/ ~ViolAt("FaultOpenOk")
FaultAckedSurvive == FaultAckedSurviveC \/ ~ViolAt("FaultAckedSurvive")
FaultNothingElse == FaultNothingElseC \/ ~ViolAt("FaultNothingElse")
FaultAtomic == FaultAtomicC \/ ~ViolAt("FaultAtomic")
FaultReadsCorrect == FaultReadsCorrectC \/ ~ViolAt("FaultReadsCorrect")
=============================================================================
