------------------------------ MODULE LifeTrace ------------------------------
(* C20: lifecycle operations issued from two cooperating processes (fcntl locks are per process, so        *)
(* exclusivity is probed from another process).  State: who holds the database directory (at most one       *)
(* handle, across processes AND within one), its contents (module Kv terms), the views frozen by backups.   *)
EXTENDS Naturals, Integers, Sequences, FiniteSets, TLC, Json, IOUtils
T == ndJsonDeserialize(IOEnv.TRACE)
NKeys == 16
Keys == 0..(NKeys - 1)
VARIABLES l, holder, cur, exists, views, lsb
vars == <<l, holder, cur, exists, views, lsb>>
None == <<-1, 0>>
Empty == [k \in Keys |-> 0]
Ev == T[l]
Is(e) == l <= Len(T) /\ Ev.e = e /\ l' = l + 1
Init == l = 1 /\ holder = None /\ cur = Empty /\ exists = FALSE /\ views = <<>> /\ lsb = {}
Live(v) == {k \in Keys : v[k] # 0}
Sorted(v) == LET ks == Live(v) IN [i \in 1..Cardinality(ks) |-> LET k == CHOOSE x \in ks : Cardinality({y \in ks : y < x}) = i - 1 IN <<k, v[k]>>]
SetOf(s) == {s[j] : j \in 1..Len(s)}
Own(names) == names \ {"LOG", "LOG.old", "LOCK"}          \* info-log rotation and the lock file are not "modification"

TReset == Is("Reset") /\ holder' = None /\ cur' = Empty /\ exists' = FALSE /\ views' = <<>> /\ lsb' = {}
\* at most one handle: an open succeeds exactly when nobody holds the directory, and a failed open changes nothing
TOpen == /\ Is("open")
         /\ IF holder = None THEN Ev.rc = 0 /\ holder' = <<Ev.p, Ev.h>> /\ exists' = TRUE
                             ELSE Ev.rc # 0 /\ UNCHANGED <<holder, exists>>
         /\ UNCHANGED <<cur, views, lsb>>
\* the lock is released on close
TClose == Is("close") /\ holder = <<Ev.p, Ev.h>> /\ holder' = None /\ UNCHANGED <<cur, exists, views, lsb>>
TPut == Is("put") /\ holder # None /\ holder[1] = Ev.p /\ Ev.rc = 0 /\ cur' = [cur EXCEPT ![Ev.k] = Ev.v] /\ UNCHANGED <<holder, exists, views, lsb>>
\* the source stays usable and unchanged
TScan == Is("scan") /\ holder # None /\ Ev.status = 0 /\ Ev.items = Sorted(cur) /\ UNCHANGED <<holder, cur, exists, views, lsb>>
\* a backup taken at any moment equals the source at that moment
TBackup == /\ Is("backup") /\ holder # None /\ holder[1] = 0 /\ Ev.rc = 0
           /\ views' = (Ev.n :> cur) @@ views /\ UNCHANGED <<holder, cur, exists, lsb>>
TBackupScan == /\ (Is("backup_scan") \/ Is("copy_scan")) /\ Ev.n \in DOMAIN views
               /\ Ev.rc = 0 /\ Ev.status = 0 /\ Ev.items = Sorted(views[Ev.n])
               /\ UNCHANGED <<holder, cur, exists, views, lsb>>
\* copying a database nobody holds succeeds; a refused copy (source locked / absent) changes nothing
TCopy == /\ Is("copy")
         /\ (holder = None /\ exists) => Ev.rc = 0
         /\ ~exists => Ev.rc # 0
         /\ views' = (IF Ev.rc = 0 THEN (Ev.n :> cur) @@ views ELSE views) /\ UNCHANGED <<holder, cur, exists, lsb>>
\* another comparator is refused without modifying the database
\* a backup / copy whose target directory already holds a database (an earlier backup, or the source itself) is refused; the
\* backup_scan / scan events that follow show that nothing was touched
TOver == (Is("backup_over") \/ Is("copy_over") \/ Is("backup_self")) /\ Ev.rc # 0 /\ UNCHANGED <<holder, cur, exists, views, lsb>>
TLsBefore == Is("ls_before") /\ lsb' = Own(SetOf(Ev.names)) /\ UNCHANGED <<holder, cur, exists, views>>
TWrongCmp == Is("open_wrongcmp") /\ Ev.rc # 0 /\ UNCHANGED <<holder, cur, exists, views, lsb>>
\* (while somebody holds the database, the holder's own background compactions may create and remove files between the
\*  two listings; the refused open is then decided by the lock alone, and the contents are checked by the later scans)
TLsAfter == Is("ls_after") /\ (holder = None => Own(SetOf(Ev.names)) = lsb) /\ UNCHANGED <<holder, cur, exists, views, lsb>>
\* destroy removes the database's own files and nothing else; while somebody holds it, it is refused and changes nothing
TDestroy == /\ Is("destroy")
            /\ IF holder = None THEN Ev.rc = 0 /\ cur' = Empty /\ exists' = FALSE
                                ELSE Ev.rc # 0 /\ UNCHANGED <<cur, exists>>
            /\ UNCHANGED <<holder, views, lsb>>
TLsDestroyed == /\ Is("ls_destroyed")
                /\ (~exists /\ holder = None) => (SetOf(Ev.names) \subseteq {"notes.txt"})
                /\ UNCHANGED <<holder, cur, exists, views, lsb>>
Next == TOver \/ TReset \/ TOpen \/ TClose \/ TPut \/ TScan \/ TBackup \/ TBackupScan \/ TCopy \/ TLsBefore \/ TWrongCmp \/ TLsAfter \/ TDestroy \/ TLsDestroyed
Spec == Init /\ [][Next]_vars
AtMostOneHandle == TRUE   \* by construction of TOpen: holder is a single value
=============================================================================
