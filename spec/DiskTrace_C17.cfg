SPECIFICATION Spec
CHECK_DEADLOCK FALSE
INVARIANT ModelSyncedSurvive
INVARIANT RecOpenOk
INVARIANT RecNothingElse
