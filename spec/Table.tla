-------------------------------- MODULE Table --------------------------------
(* The table (sstable) layer: table_builder.c / block_builder.c write, table.c / block.c / two_level_iterator.c  *)
(* read.  A table is abstracted to what an INDEPENDENT reader of the LevelDB format decodes from the bytes:   *)
(* N entries in order (entry i has position 2i; a key strictly between entries i and i+1 has position 2i+1), *)
(* data blocks as index ranges with their restart points, one index separator (a position) per block.         *)
(* Seek / Get are modelled the way the code performs them: seek the index for the first separator >= target,  *)
(* seek inside that block from the right restart point, and (iterators only) fall through to the next block.  *)
EXTENDS Naturals, Sequences, FiniteSets

\* ---- structure ----
BlocksTile(t) == /\ t.blocks # <<>> => (t.blocks[1].first = 1 /\ t.blocks[Len(t.blocks)].last = t.n)
                 /\ \A j \in 1..Len(t.blocks) : t.blocks[j].first <= t.blocks[j].last
                 /\ \A j \in 1..(Len(t.blocks) - 1) : t.blocks[j + 1].first = t.blocks[j].last + 1
                 /\ (t.n = 0 <=> t.blocks = <<>>)
RestartsOk(t) == \A j \in 1..Len(t.blocks) :
                   LET b == t.blocks[j]  r == b.restarts IN
                   /\ Len(r) >= 1 /\ r[1] = b.first                          \* a block starts with a restart point
                   /\ \A x \in 1..Len(r) : b.first <= r[x] /\ r[x] <= b.last
                   /\ \A x \in 1..(Len(r) - 1) : r[x + 1] = r[x] + t.interval  \* every restart_interval entries
                   /\ b.last - r[Len(r)] < t.interval
\* index separators: last key of block j <= separator j < first key of block j+1
SeparatorsOk(t) == /\ Len(t.seps) = Len(t.blocks)
                   /\ \A j \in 1..Len(t.blocks) : t.seps[j] >= t.epos[t.blocks[j].last]
                   /\ \A j \in 1..(Len(t.blocks) - 1) : t.seps[j] < t.epos[t.blocks[j + 1].first]
EposOk(t) == Len(t.epos) = t.n /\ \A i \in 1..(t.n - 1) : t.epos[i] < t.epos[i + 1]
WellFormed(t) == EposOk(t) /\ BlocksTile(t) /\ RestartsOk(t) /\ SeparatorsOk(t)

\* ---- lookups as the code performs them ----
MinOf(S) == CHOOSE x \in S : \A y \in S : x <= y
MaxOf(S) == CHOOSE x \in S : \A y \in S : x >= y
IndexSeek(t, pos) == LET c == {j \in 1..Len(t.blocks) : t.seps[j] >= pos} IN IF c = {} THEN 0 ELSE MinOf(c)
\* block seek: binary search over restart points for the last restart whose key is < target, then a linear scan
BlockSeek(t, j, pos) ==
  LET b == t.blocks[j]
      below == {x \in 1..Len(b.restarts) : t.epos[b.restarts[x]] < pos}
      start == IF below = {} THEN b.first ELSE b.restarts[MaxOf(below)]
      c == {e \in start..b.last : t.epos[e] >= pos}
  IN IF c = {} THEN 0 ELSE MinOf(c)
\* iterator seek (two-level iterator): an exhausted block is skipped forward
ModelSeek(t, pos) ==
  LET j == IndexSeek(t, pos) IN
  IF j = 0 THEN 0
  ELSE LET e == BlockSeek(t, j, pos) IN
       IF e # 0 THEN e ELSE IF j < Len(t.blocks) THEN t.blocks[j + 1].first ELSE 0
\* point lookup (ldb_table_internal_get): one block only
ModelGet(t, pos) == LET j == IndexSeek(t, pos) IN IF j = 0 THEN 0 ELSE BlockSeek(t, j, pos)
\* what a sorted map dictates: the first entry at or after the target
SortedSeek(t, pos) == LET c == {e \in 1..t.n : t.epos[e] >= pos} IN IF c = {} THEN 0 ELSE MinOf(c)
SeeksLandRight(t) == \A pos \in 1..t.maxpos : ModelSeek(t, pos) = SortedSeek(t, pos)
GetsFindPresent(t) == \A e \in 1..t.n : ModelGet(t, t.epos[e]) = e
=============================================================================
