SPECIFICATION GSpecF
CONSTANTS
  NKeys = 5
  NL = 4
  MaxMemLevel = 2
  MaxSeq = 0
  MaxFiles = 0
  MaxNextF = 0
  TrackFiles = FALSE
  MaxSnaps = 1
  AllowRepair = FALSE
  UseBoundary = TRUE
  DropTombstoneAlways = FALSE
  MaxOps = 24
  WithBig = TRUE
  Target = {}
  OutDir = "/tmp/lsmgen_out"
INVARIANT ReadLatest
INVARIANT LevelsWellFormed
INVARIANT Recency
CONSTRAINT GConstraintF
CHECK_DEADLOCK FALSE
