SPECIFICATION FairSpec
CONSTANTS
  W = 2
  Calls = 2
  Cap = 1
  L0Stop = 2
  L0Compact = 1
  WithClose = TRUE
  SignalHead = TRUE
  BcastAfterBg = TRUE
  Resched = TRUE
  ScheduleAtOpen = TRUE
INVARIANT PublishedInserted
INVARIANT OneLeader
INVARIANT SeqContiguous
INVARIANT CloseSafe
INVARIANT NoStuck
PROPERTY Live
CHECK_DEADLOCK FALSE
