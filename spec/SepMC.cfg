SPECIFICATION Spec
CONSTANTS
  Alphabet = {0, 1, 2, 254, 255}
  MaxLen = 3
  Seqs = {1, 5}
