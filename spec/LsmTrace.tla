----------------------------- MODULE LsmTrace -----------------------------
(* Structure-level trace validation: hook events of a real lcdb execution (plus independently decoded   *)
(* table contents added by the projection) drive the primitive actions of Lsm.  The invariants of Lsm   *)
(* (ReadLatest, LevelsWellFormed, Recency, NoLiveFileMissing, EntriesAreWrites) are evaluated after      *)
(* EVERY event - a misplacement is caught at the flush or compaction that creates it, not at some later *)
(* read that may never come.  Properties decided: C01 C06 (structure), C13, C14, parts of C17.          *)
EXTENDS Lsm, Integers, Json, IOUtils
\* constants of Lsm are fixed in LsmTrace.cfg: NKeys = 16, NL = 7, MaxMemLevel = 2 (the model-checking knobs are unused here)

\* which property-specific enabling conditions are enforced (one configuration per property, so that a rejection
\* is attributed to the property whose clause failed; the structural bindings are always enforced)
CONSTANTS CheckFlushLevel,   \* C01/C14: a flushed table never goes past a level it overlaps
          CheckSS,           \* C06: compactions use the oldest live snapshot
          CheckObsolete,     \* C13: nothing needed is deleted, nothing unreachable is left
          CheckLs,           \* C13: directory listing = live files
          CheckReport        \* C14/C17: reported layout and recovered layout

T == ndJsonDeserialize(IOEnv.TRACE)

VARIABLES l,
          pend,       \* operations of the API write in flight (from the driver's call event)
          built,      \* tables written but not (yet) part of a version: num -> [n, e, size]
          sizes,      \* num -> file size of every table ever built
          flushing,   \* number of the table the current flush is building (0 = none) and its chosen level
          flushLevel,
          comp,       \* in-progress compaction [level, in0, in1] or NoComp
          snapIds,    \* hook snapshot id -> sequence (a bag: two snapshots may share a sequence)
          pinIds,     \* pin holder id -> set of file numbers
          curLog, immLog, manifest,
          phase,      \* "run" | "closed" | "opening"
          unflushed,  \* entries that lived only in write-ahead logs when the database was closed
          reusedLog,  \* some log was reused by the recovery in progress
          opened      \* tables built by the recovery in progress
tvars == <<l, pend, built, sizes, flushing, flushLevel, comp, snapIds, pinIds, curLog, immLog, manifest, phase, unflushed, reusedLog, opened>>
allvars == <<vars, tvars>>

NoComp == [level |-> -1]
Ev == T[l]
Is(e) == l <= Len(T) /\ Ev.e = e /\ l' = l + 1
SetOf(s) == {s[j] : j \in 1..Len(s)}
Entry(t) == [k |-> t[1], s |-> t[2], d |-> (t[3] = 1), v |-> t[4]]
EntsOfSeq(s) == {Entry(s[j]) : j \in 1..Len(s)}
Has(f, id) == id \in DOMAIN f
Without(f, id) == [i \in DOMAIN f \ {id} |-> f[i]]
RangeOf(f) == {f[x] : x \in DOMAIN f}
FileByNum(n) == CHOOSE f \in Files : f.n = n
LevelOfNum(n) == CHOOSE lev \in Levels : \E f \in lv[lev] : f.n = n

SnapSeqs == RangeOf(snapIds)
PinSets == RangeOf(pinIds)

UnchangedTNoL == UNCHANGED <<pend, built, sizes, flushing, flushLevel, comp, snapIds, pinIds, curLog, immLog, manifest, phase, unflushed, reusedLog, opened>>
KeepLsm == UNCHANGED vars

TInit == /\ Init /\ l = 1 /\ pend = <<>> /\ built = <<>> /\ sizes = <<>> /\ flushing = 0 /\ flushLevel = 0 /\ comp = NoComp
         /\ snapIds = <<>> /\ pinIds = <<>> /\ curLog = 0 /\ immLog = 0 /\ manifest = 0 /\ phase = "opening"
         /\ unflushed = {} /\ reusedLog = FALSE /\ opened = {}

\* ---- a new execution starts ----
TReset == /\ Is("Reset")
          /\ seq' = 0 /\ mem' = {} /\ imm' = {} /\ hasImm' = FALSE /\ lv' = [lev \in Levels |-> {}] /\ nextf' = 1
          /\ snaps' = {} /\ hist' = <<>> /\ pins' = {} /\ disk' = {}
          /\ pend' = <<>> /\ built' = <<>> /\ sizes' = <<>> /\ flushing' = 0 /\ flushLevel' = 0 /\ comp' = NoComp
          /\ snapIds' = <<>> /\ pinIds' = <<>> /\ curLog' = 0 /\ immLog' = 0 /\ manifest' = 0 /\ phase' = "opening"
          /\ unflushed' = {} /\ reusedLog' = FALSE /\ opened' = {}

\* ---- the write path: the driver announces the operations, the hook at the publish point applies them ----
TCall == /\ Is("call_write") /\ phase = "run" /\ pend' = Ev.ops
         /\ KeepLsm /\ UNCHANGED <<built, sizes, flushing, flushLevel, comp, snapIds, pinIds, curLog, immLog, manifest, phase, unflushed, reusedLog, opened>>
RECURSIVE AddOps(_, _, _)
AddOps(m, ops, s) == IF ops = <<>> THEN m
                     ELSE AddOps(m \cup {[k |-> Head(ops)[1], s |-> s + 1, d |-> (Head(ops)[2] = 0), v |-> Head(ops)[2]]}, Tail(ops), s + 1)
HistOps(ops) == [j \in 1..Len(ops) |-> [k |-> ops[j][1], d |-> (ops[j][2] = 0), v |-> ops[j][2]]]
TPublish == /\ Is("WPublish") /\ phase = "run"
            /\ IF Ev.rc = 0
               THEN /\ Ev.last = seq + Len(pend)                   \* contiguous sequence numbers, one per operation
                    /\ seq' = Ev.last /\ mem' = AddOps(mem, pend, seq) /\ hist' = hist \o HistOps(pend)
               ELSE /\ Ev.last = seq + Len(pend) /\ seq' = Ev.last  \* a failed group burns its sequence numbers
                    /\ hist' = hist \o [j \in 1..Len(pend) |-> [k |-> pend[j][1], d |-> TRUE, v |-> 0]] /\ UNCHANGED mem
            /\ pend' = <<>>
            /\ snaps' = SnapSeqs
            /\ UNCHANGED <<imm, hasImm, lv, nextf, pins, disk>>
            /\ UNCHANGED <<built, sizes, flushing, flushLevel, comp, snapIds, pinIds, curLog, immLog, manifest, phase, unflushed, reusedLog, opened>>
TMemSwitch == /\ Is("MemSwitch") /\ phase = "run" /\ SwitchMem
              /\ immLog' = curLog /\ curLog' = Ev.newlog
              /\ UNCHANGED <<pend, built, sizes, flushing, flushLevel, comp, snapIds, pinIds, manifest, phase, unflushed, reusedLog, opened>>

\* ---- flush ----
TFlushStart == /\ Is("FlushStart") /\ flushing = 0
               /\ flushing' = Ev.num /\ flushLevel' = -1
               /\ KeepLsm /\ UNCHANGED <<pend, built, sizes, comp, snapIds, pinIds, curLog, immLog, manifest, phase, unflushed, reusedLog, opened>>
TTableBuilt == /\ Is("TableBuilt") /\ flushing = Ev.num
               /\ IF Ev.rc = 0 /\ Ev.size > 0
                  THEN /\ built' = (Ev.num :> [n |-> Ev.num, e |-> EntsOfSeq(Ev.ents)]) @@ built
                       /\ sizes' = (Ev.num :> Ev.size) @@ sizes
                       /\ disk' = disk \cup {Ev.num}
                       /\ UNCHANGED flushing
                  ELSE /\ UNCHANGED <<built, sizes, disk>> /\ flushing' = 0
               /\ UNCHANGED <<seq, mem, imm, hasImm, lv, nextf, snaps, hist, pins>>
               /\ UNCHANGED <<pend, flushLevel, comp, snapIds, pinIds, curLog, immLog, manifest, phase, unflushed, reusedLog, opened>>
\* the level chosen for the new table must be one the no-overlap rule allows (never past an overlapping level)
TFlushPick == /\ Is("FlushPick") /\ flushing = Ev.num /\ Has(built, Ev.num)
              /\ (CheckFlushLevel => Ev.level \in FlushLevels(built[Ev.num]))
              /\ flushLevel' = Ev.level
              /\ KeepLsm /\ UNCHANGED <<pend, built, sizes, flushing, comp, snapIds, pinIds, curLog, immLog, manifest, phase, unflushed, reusedLog, opened>>
TImmDone == /\ Is("ImmDone") /\ ~hasImm /\ flushing = 0
            /\ KeepLsm /\ UnchangedTNoL
\* ---- compaction ----
NumsAt(lev) == {f.n : f \in lv[lev]}
MinSnapTV == IF SnapSeqs = {} THEN seq ELSE MinOf(SnapSeqs)
TCompPick == /\ Is("CompPick") /\ comp = NoComp /\ phase = "run"
             /\ Ev.level + 1 < NL
             /\ SetOf(Ev.in0) # {} /\ SetOf(Ev.in0) \subseteq NumsAt(Ev.level) /\ SetOf(Ev.in1) \subseteq NumsAt(Ev.level + 1)
             /\ (CheckSS => Ev.ss = MinSnapTV)                                  \* C06: the oldest live snapshot bounds what may be dropped
             /\ comp' = [level |-> Ev.level, in0 |-> SetOf(Ev.in0), in1 |-> SetOf(Ev.in1), outs |-> {}]
             /\ KeepLsm /\ UNCHANGED <<pend, built, sizes, flushing, flushLevel, snapIds, pinIds, curLog, immLog, manifest, phase, unflushed, reusedLog, opened>>
\* the number of an output is protected from the moment the file is opened (pending_outputs), not only once it is finished
TCompOutOpen == /\ Is("CompOutOpen") /\ comp # NoComp
                /\ comp' = [x \in DOMAIN comp \cup {"open"} |-> IF x = "open" THEN Ev.num ELSE comp[x]]
                /\ KeepLsm /\ UNCHANGED <<pend, built, sizes, flushing, flushLevel, snapIds, pinIds, curLog, immLog, manifest, phase, unflushed, reusedLog, opened>>
TCompOutDone == /\ Is("CompOutDone") /\ comp # NoComp
                /\ IF Ev.rc = 0 /\ Ev.entries > 0
                   THEN /\ built' = (Ev.num :> [n |-> Ev.num, e |-> EntsOfSeq(Ev.ents)]) @@ built
                        /\ sizes' = (Ev.num :> Ev.size) @@ sizes
                        /\ disk' = disk \cup {Ev.num}
                        /\ comp' = [comp EXCEPT !.outs = @ \cup {Ev.num}]
                        /\ Len(Ev.ents) = Ev.entries
                   ELSE UNCHANGED <<built, sizes, disk, comp>>
                /\ UNCHANGED <<seq, mem, imm, hasImm, lv, nextf, snaps, hist, pins>>
                /\ UNCHANGED <<pend, flushing, flushLevel, snapIds, pinIds, curLog, immLog, manifest, phase, unflushed, reusedLog, opened>>
TCompInstall == /\ Is("CompInstall") /\ comp # NoComp
                /\ KeepLsm /\ UnchangedTNoL
TCompCleanup == /\ Is("CompCleanup") /\ comp' = NoComp
                /\ built' = [n \in DOMAIN built \ (IF comp = NoComp THEN {} ELSE comp.outs) |-> built[n]]
                /\ KeepLsm /\ UNCHANGED <<pend, sizes, flushing, flushLevel, snapIds, pinIds, curLog, immLog, manifest, phase, unflushed, reusedLog, opened>>
TTrivialMove == /\ Is("TrivialMove") /\ KeepLsm /\ UnchangedTNoL

\* ---- version install: the new layout as the library reports it, explained by exactly one primitive ----
NewNumsAt(lev) == {Ev.files[j][2] : j \in {x \in 1..Len(Ev.files) : Ev.files[x][1] = lev}}
NewNums == {Ev.files[j][2] : j \in 1..Len(Ev.files)}
NewLevelOf(n) == Ev.files[CHOOSE j \in 1..Len(Ev.files) : Ev.files[j][2] = n][1]
NewSizeOf(n) == Ev.files[CHOOSE j \in 1..Len(Ev.files) : Ev.files[j][2] = n][3]
Added == NewNums \ FileNums
Removed == FileNums \ NewNums
Moved == {n \in NewNums \cap FileNums : NewLevelOf(n) # LevelOfNum(n)}
SizesAgree == \A n \in NewNums : Has(sizes, n) /\ sizes[n] = NewSizeOf(n)
TVersionInstall ==
  /\ Is("VersionInstall") /\ SizesAgree
  /\ manifest' = Ev.manifest
  /\ Ev.lastseq <= seq + Len(pend)
  /\ CASE flushing # 0 /\ phase = "run" ->
            \* memtable flush: exactly the new table, at the level that was picked
            /\ Added = {flushing} /\ Removed = {} /\ Moved = {} /\ NewLevelOf(flushing) = flushLevel
            /\ InstallFlush(flushLevel, built[flushing]) /\ UNCHANGED nextf
            /\ built' = Without(built, flushing) /\ flushing' = 0
            /\ Ev.log = curLog /\ Ev.prevlog = 0                    \* earlier logs are no longer needed - and only those
            /\ UNCHANGED <<comp, phase, unflushed, reusedLog, opened>>
       [] flushing = 0 /\ phase = "run" /\ comp # NoComp /\ (Added # {} \/ Removed # {}) ->
            /\ Removed = comp.in0 \cup comp.in1 /\ Added = comp.outs /\ Moved = {}
            /\ \A n \in Added : NewLevelOf(n) = comp.level + 1
            /\ InstallCompaction(comp.level, {FileByNum(n) : n \in comp.in0}, {FileByNum(n) : n \in comp.in1}, {built[n] : n \in comp.outs})
            /\ UNCHANGED nextf
            /\ built' = [n \in DOMAIN built \ comp.outs |-> built[n]]
            /\ comp' = [comp EXCEPT !.outs = {}]
            /\ UNCHANGED <<flushing, phase, unflushed, reusedLog, opened>>
       [] flushing = 0 /\ phase = "run" /\ comp = NoComp /\ Cardinality(Moved) = 1 ->
            /\ Added = {} /\ Removed = {}
            /\ LET n == CHOOSE x \in Moved : TRUE IN NewLevelOf(n) = LevelOfNum(n) + 1 /\ InstallMove(LevelOfNum(n), FileByNum(n))
            /\ UNCHANGED <<built, flushing, comp, phase, unflushed, reusedLog, opened>>
       [] phase = "opening" ->
            \* recovery: the tables built from the replayed logs enter level 0; nothing else changes
            /\ Removed = {} /\ Moved = {} /\ Added = opened /\ \A n \in Added : NewLevelOf(n) = 0
            /\ lv' = [lv EXCEPT ![0] = @ \cup {built[n] : n \in Added}]
            /\ built' = [n \in DOMAIN built \ Added |-> built[n]]
            /\ UNCHANGED <<seq, mem, imm, hasImm, nextf, snaps, hist, pins, disk>>
            /\ UNCHANGED <<flushing, comp, phase, unflushed, reusedLog, opened>>
       [] OTHER ->
            \* an edit that changes no file (the flush of an empty memtable): only the log bookkeeping moves on
            /\ phase = "run" /\ Added = {} /\ Removed = {} /\ Moved = {} /\ flushing = 0
            /\ IF hasImm /\ imm = {} THEN hasImm' = FALSE ELSE UNCHANGED hasImm
            /\ UNCHANGED <<seq, mem, imm, lv, nextf, snaps, hist, pins, disk>>
            /\ UNCHANGED <<built, flushing, comp, phase, unflushed, reusedLog, opened>>
  /\ UNCHANGED <<pend, sizes, flushLevel, snapIds, pinIds, curLog, immLog>>

\* ---- obsolete-file removal: nothing needed may be deleted (C13) ----
PendingNums == DOMAIN built \cup (IF flushing # 0 THEN {flushing} ELSE {}) \cup (IF comp # NoComp /\ "open" \in DOMAIN comp THEN {comp.open} ELSE {})
NeededTV == FileNums \cup UNION PinSets \cup PendingNums
TObsolete == /\ Is("Obsolete")
             /\ LET dt == SetOf(Ev.deltables)  dl == SetOf(Ev.dellogs)  dm == SetOf(Ev.delmanifests) IN
                /\ CheckObsolete =>
                     /\ dt \cap NeededTV = {}                                       \* no table still reachable
                     /\ (phase = "run" => curLog \notin dl /\ (hasImm => immLog \notin dl))   \* no log still holding unflushed data
                     /\ manifest \notin dm
                     /\ (disk \ dt) \subseteq NeededTV                             \* ... and nothing unreachable is left behind
                /\ RemoveFiles(dt)
             /\ UnchangedTNoL
TObsoleteDone == Is("ObsoleteDone") /\ KeepLsm /\ UnchangedTNoL

\* ---- pins: iterators and in-flight reads keep their version's files alive ----
TIterNew == /\ Is("IterNew") /\ pinIds' = (Ev.it :> FileNums) @@ Without(pinIds, Ev.it)
            /\ pins' = RangeOf(pinIds')
            /\ UNCHANGED <<seq, mem, imm, hasImm, lv, nextf, snaps, hist, disk>>
            /\ UNCHANGED <<pend, built, sizes, flushing, flushLevel, comp, snapIds, curLog, immLog, manifest, phase, unflushed, reusedLog, opened>>
TIterFree == /\ Is("IterFree") /\ pinIds' = Without(pinIds, Ev.it)
             /\ pins' = RangeOf(pinIds')
             /\ UNCHANGED <<seq, mem, imm, hasImm, lv, nextf, snaps, hist, disk>>
             /\ UNCHANGED <<pend, built, sizes, flushing, flushLevel, comp, snapIds, curLog, immLog, manifest, phase, unflushed, reusedLog, opened>>
TGetCap == /\ Is("GetCap") /\ pinIds' = (0 :> FileNums) @@ Without(pinIds, 0)
           /\ pins' = RangeOf(pinIds')
           /\ (Ev.snap = 0 => Ev.seq = seq)                        \* a read captures exactly the published sequence
           /\ UNCHANGED <<seq, mem, imm, hasImm, lv, nextf, snaps, hist, disk>>
           /\ UNCHANGED <<pend, built, sizes, flushing, flushLevel, comp, snapIds, curLog, immLog, manifest, phase, unflushed, reusedLog, opened>>
TGetDone == /\ Is("GetDone") /\ pinIds' = Without(pinIds, 0)
            /\ pins' = RangeOf(pinIds')
            /\ UNCHANGED <<seq, mem, imm, hasImm, lv, nextf, snaps, hist, disk>>
            /\ UNCHANGED <<pend, built, sizes, flushing, flushLevel, comp, snapIds, curLog, immLog, manifest, phase, unflushed, reusedLog, opened>>
\* ---- snapshots ----
TSnapNew == /\ Is("SnapNew") /\ Ev.seq = seq
            /\ snapIds' = (Ev.snap :> Ev.seq) @@ Without(snapIds, Ev.snap)
            /\ snaps' = RangeOf(snapIds')
            /\ UNCHANGED <<seq, mem, imm, hasImm, lv, nextf, hist, pins, disk>>
            /\ UNCHANGED <<pend, built, sizes, flushing, flushLevel, comp, pinIds, curLog, immLog, manifest, phase, unflushed, reusedLog, opened>>
TSnapRel == /\ Is("SnapRel") /\ Has(snapIds, Ev.snap)
            /\ snapIds' = Without(snapIds, Ev.snap)
            /\ snaps' = RangeOf(snapIds')
            /\ UNCHANGED <<seq, mem, imm, hasImm, lv, nextf, hist, pins, disk>>
            /\ UNCHANGED <<pend, built, sizes, flushing, flushLevel, comp, pinIds, curLog, immLog, manifest, phase, unflushed, reusedLog, opened>>

\* ---- quiescent observations (C13 / C14) ----
\* the layout the database reports: same files per level, sizes as written, bounds = first / last entry
ReportedOk(files) ==
  /\ {<<files[j][1], files[j][2]>> : j \in 1..Len(files)} = UNION {{<<lev, f.n>> : f \in lv[lev]} : lev \in Levels}
  /\ \A j \in 1..Len(files) :
       LET lev == files[j][1]  n == files[j][2] IN
       /\ n \in FileNums /\ LevelOfNum(n) = lev
       /\ Has(sizes, n) /\ sizes[n] = files[j][3]
       /\ LET f == FileByNum(n)  sm == Smallest(f)  lg == Largest(f) IN
          /\ files[j][4] = sm.k /\ files[j][5] = sm.s /\ files[j][6] = (IF sm.d THEN 0 ELSE 1)
          /\ files[j][7] = lg.k /\ files[j][8] = lg.s /\ files[j][9] = (IF lg.d THEN 0 ELSE 1)
  /\ Len(files) = Cardinality(FileNums)
  \* above level 0 the report lists files in key order
  /\ \A i, j \in 1..Len(files) : (i < j /\ files[i][1] = files[j][1] /\ files[i][1] > 0) =>
        IKLess(Largest(FileByNum(files[i][2])), Smallest(FileByNum(files[j][2])))
TSstables == /\ Is("sstables") /\ phase = "run" /\ (CheckReport => ReportedOk(Ev.files))
             /\ KeepLsm /\ UnchangedTNoL
\* no compaction or flush is in progress and no old iterator remains: the directory holds the live files only
TLs == /\ Is("ls") /\ phase = "run"
       /\ (CheckLs /\ comp = NoComp /\ flushing = 0 /\ ~hasImm) =>
            /\ SetOf(Ev.tables) = disk               \* = live files + files pinned at the last removal pass
            /\ SetOf(Ev.logs) = {curLog}
            /\ SetOf(Ev.manifests) = {manifest}
            /\ Ev.temps = <<>>
       /\ KeepLsm /\ UnchangedTNoL

\* ---- close / reopen ----
TClosed == /\ Is("closed") /\ phase' = "closed"
           /\ unflushed' = mem \cup (IF hasImm THEN imm ELSE {})
           /\ mem' = mem \cup (IF hasImm THEN imm ELSE {}) /\ hasImm' = FALSE /\ imm' = {}
           /\ pinIds' = <<>> /\ pins' = {} /\ snapIds' = <<>> /\ snaps' = {}
           /\ comp' = NoComp /\ flushing' = 0 /\ built' = <<>> /\ pend' = <<>> /\ reusedLog' = FALSE /\ opened' = {}
           /\ UNCHANGED <<seq, lv, nextf, hist, disk>>
           /\ UNCHANGED <<sizes, flushLevel, curLog, immLog, manifest>>
\* C14 / C17: replaying the MANIFEST reproduces exactly the layout and the counters that were in effect
TRecoverManifest == /\ Is("RecoverManifest") /\ phase \in {"closed", "opening"}
                    /\ CheckReport =>
                         /\ {<<Ev.files[j][1], Ev.files[j][2]>> : j \in 1..Len(Ev.files)} = {<<lev, n>> \in Levels \X FileNums : n \in NumsAt(lev)}
                         /\ \A j \in 1..Len(Ev.files) : Has(sizes, Ev.files[j][2]) /\ sizes[Ev.files[j][2]] = Ev.files[j][3]
                         /\ Ev.lastseq <= seq
                    /\ phase' = "opening" /\ manifest' = Ev.manifest
                    /\ KeepLsm
                    /\ UNCHANGED <<pend, built, sizes, flushing, flushLevel, comp, snapIds, pinIds, curLog, immLog, unflushed, reusedLog, opened>>
TRecoverLog == /\ Is("RecoverLog") /\ phase = "opening" /\ Ev.rc = 0
               /\ reusedLog' = (reusedLog \/ Ev.reused = 1)
               /\ KeepLsm /\ UNCHANGED <<pend, built, sizes, flushing, flushLevel, comp, snapIds, pinIds, curLog, immLog, manifest, phase, unflushed, opened>>
\* recovery tables use the flush events; remember which tables this recovery built
TRecoveryTable == /\ Is("FlushPick") /\ phase = "opening" /\ flushing = Ev.num /\ Has(built, Ev.num) /\ Ev.level = 0
                  /\ built[Ev.num].e \subseteq unflushed               \* nothing but logged writes
                  /\ opened' = opened \cup {Ev.num} /\ flushing' = 0
                  /\ KeepLsm /\ UNCHANGED <<pend, built, sizes, flushLevel, comp, snapIds, pinIds, curLog, immLog, manifest, phase, unflushed, reusedLog>>
TOpenDone == /\ Is("OpenDone") /\ Ev.rc = 0 /\ phase \in {"opening"}
             /\ Ev.lastseq = seq                                          \* the sequence counter is restored exactly
             /\ LET got == UNION {f.e : f \in {g \in lv[0] : g.n \in opened}} IN
                /\ got \subseteq unflushed
                /\ mem' = unflushed \ got                                 \* what was not turned into tables is in the reused log
                /\ (~reusedLog => unflushed \subseteq got)               \* nothing acknowledged is dropped by a clean reopen
             /\ curLog' = Ev.log /\ phase' = "run" /\ opened' = {} /\ unflushed' = {} /\ reusedLog' = FALSE
             /\ UNCHANGED <<seq, imm, hasImm, lv, nextf, snaps, hist, pins, disk>>
             /\ UNCHANGED <<pend, built, sizes, flushing, flushLevel, comp, snapIds, pinIds, immLog, manifest>>

TNext == \/ TReset \/ TCall \/ TPublish \/ TMemSwitch
         \/ TFlushStart \/ TTableBuilt \/ (phase = "run" /\ TFlushPick) \/ TRecoveryTable \/ TImmDone
         \/ TCompPick \/ TCompOutOpen \/ TCompOutDone \/ TCompInstall \/ TCompCleanup \/ TTrivialMove
         \/ TVersionInstall \/ TObsolete \/ TObsoleteDone
         \/ TIterNew \/ TIterFree \/ TGetCap \/ TGetDone \/ TSnapNew \/ TSnapRel
         \/ TSstables \/ TLs \/ TClosed \/ TRecoverManifest \/ TRecoverLog \/ TOpenDone
TSpec == TInit /\ [][TNext]_allvars

\* the invariants of Lsm only make sense while the database is open and no install is half applied
Running == phase = "run"
\* the expensive invariants are re-evaluated whenever files, memtables or read points changed (dirty), which is
\* every state in which they could have become false
Dirty == (l > 1 /\ l <= Len(T) + 1) /\ T[l - 1].e \in {"VersionInstall", "MemSwitch", "OpenDone", "SnapNew", "SnapRel", "Reset"}
InvReadLatestC == (Running /\ Dirty) => ReadLatest
InvReadLatestCurC == (Running /\ Dirty) => \A k \in Keys : Same(Get(k, seq), Val(k, seq))                       \* C01
InvReadLatestSnapC == (Running /\ Dirty) => \A k \in Keys : \A s \in snaps : Same(Get(k, s), Val(k, s))        \* C06
InvLevelsC == Dirty => LevelsWellFormed
InvRecencyC == (Running /\ Dirty) => Recency
InvNoLiveFileMissingC == (FileNums \cup UNION PinSets \cup DOMAIN built) \subseteq disk
InvEntriesAreWritesC == Dirty => EntriesAreWrites

\* a violated invariant prints the trace position, so the orchestrator need not wait for TLC to rebuild the behaviour
ViolAt(name) == PrintT(<<"pr", name, l>>)
InvReadLatest == InvReadLatestC \/ ~ViolAt("InvReadLatest")
InvReadLatestCur == InvReadLatestCurC \/ ~ViolAt("InvReadLatestCur")
InvReadLatestSnap == InvReadLatestSnapC \/ ~ViolAt("InvReadLatestSnap")
InvLevels == InvLevelsC \/ ~ViolAt("InvLevels")
InvRecency == InvRecencyC \/ ~ViolAt("InvRecency")
InvNoLiveFileMissing == InvNoLiveFileMissingC \/ ~ViolAt("InvNoLiveFileMissing")
InvEntriesAreWrites == InvEntriesAreWritesC \/ ~ViolAt("InvEntriesAreWrites")
=============================================================================
