SPECIFICATION Spec
CONSTANTS
  NKeys = 3
  MaxSeq = 3
  NCh = 2
  Snaps = {3, 2}
  MaxOps = 60
  Incremental = FALSE
  Emit = 1
VIEW view
INVARIANT Agree
INVARIANT ForwardHasCurrent
CHECK_DEADLOCK FALSE
