---------------------------- MODULE ConcTrace ----------------------------
(* Trace validation of real multi-threaded lcdb executions (hook events emitted under db->mutex plus the  *)
(* driver's Call / Ret events, all in one total order) against the concurrency protocol of db_impl.c:     *)
(*   - the writer queue and group commit of ldb_write (C08, C04 visibility): FIFO leadership, a group is *)
(*     a prefix of the queue, contiguous sequence numbers in queue order, publish only after the whole   *)
(*     group is in the log and the memtable;                                                              *)
(*   - linearization points: a write takes effect at its group's publish, a read / snapshot / iterator   *)
(*     captures exactly the published sequence inside its own call interval and returns Val(k, captured);*)
(*   - wake-ups (C09): every follower popped by a leader and the new queue head are signalled before the *)
(*     leader leaves; every background call / in-compaction flush / background error broadcasts the      *)
(*     "background work finished" condition; the thread pool is signalled when work is queued.           *)
EXTENDS Naturals, Integers, Sequences, FiniteSets, TLC, Json, IOUtils

CONSTANTS CheckSignals,   \* C09: wake-up obligations (signals to followers / new head, broadcasts, pool signal, close)
          CheckReads      \* C08 / C04: linearization points and returned values
T == ndJsonDeserialize(IOEnv.TRACE)
NKeys == 16
Keys == 0..(NKeys - 1)

VARIABLES l, queue, wOwner, wCv, done, leader, grp, grpOps, inserted, lastSeq, sigs, pend, vers, cap, snapOf,
          committed, failedW, lastEv, oblig, bgSched, bgRun, bgRe, closing
vars == <<l, queue, wOwner, wCv, done, leader, grp, grpOps, inserted, lastSeq, sigs, pend, vers, cap, snapOf,
          committed, failedW, lastEv, oblig, bgSched, bgRun, bgRe, closing>>

Ev == T[l]
Put(f, k, v) == (k :> v) @@ [x \in DOMAIN f \ {k} |-> f[x]]
Del(f, k) == [x \in DOMAIN f \ {k} |-> f[x]]
Has(f, k) == k \in DOMAIN f
\* every consumed event is remembered as the last event of its thread; an obligation must be met by the thread's next event
Is(e) == /\ l <= Len(T) /\ Ev.e = e /\ l' = l + 1
         /\ lastEv' = Put(lastEv, Ev.t, e)
         /\ ((CheckSignals /\ Has(oblig, Ev.t)) => e = oblig[Ev.t])
NoObl == oblig' = Del(oblig, Ev.t)
ToSet(q) == {q[i] : i \in 1..Len(q)}

Init == /\ l = 1 /\ queue = <<>> /\ wOwner = <<>> /\ wCv = <<>> /\ done = {} /\ leader = 0 /\ grp = <<>> /\ grpOps = <<>>
        /\ inserted = 0 /\ lastSeq = 0 /\ sigs = {} /\ pend = <<>> /\ vers = [k \in Keys |-> <<>>] /\ cap = <<>>
        /\ snapOf = <<>> /\ committed = {} /\ failedW = {} /\ lastEv = <<>> /\ oblig = <<>> /\ bgSched = 0 /\ bgRun = 0 /\ bgRe = 0 /\ closing = FALSE

\* value of key k at sequence s: the newest version with seq <= s (versions are appended in sequence order)
ValAt(k, s) == LET c == {i \in 1..Len(vers[k]) : vers[k][i][1] <= s}
               IN IF c = {} THEN 0 ELSE vers[k][CHOOSE i \in c : \A j \in c : j <= i][2]
ViewAt(s) == [k \in Keys |-> ValAt(k, s)]
LiveKeys(v) == {k \in Keys : v[k] # 0}
SortedLive(v) == LET ks == LiveKeys(v) IN [i \in 1..Cardinality(ks) |-> LET k == CHOOSE x \in ks : Cardinality({y \in ks : y < x}) = i - 1 IN <<k, v[k]>>]
Rev(s) == [i \in 1..Len(s) |-> s[Len(s) + 1 - i]]
Prefix(s, n) == IF Len(s) <= n THEN s ELSE SubSeq(s, 1, n)

U1 == UNCHANGED <<queue, wOwner, wCv, done, leader, grp, grpOps, inserted, lastSeq, sigs, pend, vers, cap, snapOf, committed, failedW, bgSched, bgRun, bgRe, closing>>

TReset == /\ l <= Len(T) /\ Ev.e = "Reset" /\ l' = l + 1
          /\ queue' = <<>> /\ wOwner' = <<>> /\ wCv' = <<>> /\ done' = {} /\ leader' = 0 /\ grp' = <<>> /\ grpOps' = <<>>
          /\ inserted' = 0 /\ lastSeq' = 0 /\ sigs' = {} /\ pend' = <<>> /\ vers' = [k \in Keys |-> <<>>] /\ cap' = <<>>
          /\ snapOf' = <<>> /\ committed' = {} /\ failedW' = {} /\ lastEv' = <<>> /\ oblig' = <<>> /\ bgSched' = 0 /\ bgRun' = 0 /\ bgRe' = 0 /\ closing' = FALSE

\* ---- driver events ----
TCall == /\ Is("Call") /\ ~Has(pend, Ev.t) /\ NoObl
         /\ pend' = Put(pend, Ev.t, Ev)
         /\ closing' = (closing \/ Ev.op = "close")
         /\ cap' = (IF Ev.op = "backup" THEN Put(cap, Ev.t, lastSeq) ELSE cap)      \* a backup reflects some point at or after this one
         /\ UNCHANGED <<queue, wOwner, wCv, done, leader, grp, grpOps, inserted, lastSeq, sigs, vers, snapOf, committed, failedW, bgSched, bgRun, bgRe>>
\* a write returns OK only after its group was published; with an error it was not applied
TRetWrite == /\ Is("Ret") /\ Ev.op = "write" /\ Has(pend, Ev.t) /\ pend[Ev.t].op = "write" /\ NoObl
             /\ IF Ev.rc = 0 THEN Ev.t \in committed /\ committed' = committed \ {Ev.t} /\ UNCHANGED failedW
                             ELSE Ev.t \in failedW /\ failedW' = failedW \ {Ev.t} /\ UNCHANGED committed
             /\ pend' = Del(pend, Ev.t)
             /\ UNCHANGED <<queue, wOwner, wCv, done, leader, grp, grpOps, inserted, lastSeq, sigs, vers, cap, snapOf, bgSched, bgRun, bgRe, closing>>
\* C08: a read returns the value at the sequence it captured inside its own call
TRetGet == /\ Is("Ret") /\ Ev.op = "get" /\ Has(pend, Ev.t) /\ pend[Ev.t].op = "get" /\ Has(cap, Ev.t) /\ NoObl
           /\ CheckReads => (Ev.r = ValAt(pend[Ev.t].k, cap[Ev.t]) /\ Ev.rc = (IF Ev.r = 0 THEN 30001 ELSE 0))
           /\ pend' = Del(pend, Ev.t) /\ cap' = Del(cap, Ev.t)
           /\ UNCHANGED <<queue, wOwner, wCv, done, leader, grp, grpOps, inserted, lastSeq, sigs, vers, snapOf, committed, failedW, bgSched, bgRun, bgRe, closing>>
TRetSnap == /\ Is("Ret") /\ Ev.op = "snap" /\ Has(pend, Ev.t) /\ pend[Ev.t].op = "snap" /\ Has(snapOf, Ev.t) /\ NoObl
            /\ pend' = Del(pend, Ev.t)
            /\ UNCHANGED <<queue, wOwner, wCv, done, leader, grp, grpOps, inserted, lastSeq, sigs, vers, cap, snapOf, committed, failedW, bgSched, bgRun, bgRe, closing>>
\* C04 / C06 / C08: all reads through one snapshot reflect ONE point of the write order
TRetSnapGet == /\ Is("Ret") /\ Ev.op = "snapget" /\ Has(pend, Ev.t) /\ Has(snapOf, Ev.t) /\ NoObl
               /\ CheckReads => (Ev.rc = 0 /\ \A k \in Keys : Ev.vals[k + 1] = ValAt(k, snapOf[Ev.t]))
               /\ pend' = Del(pend, Ev.t) /\ cap' = Del(cap, Ev.t)
               /\ UNCHANGED <<queue, wOwner, wCv, done, leader, grp, grpOps, inserted, lastSeq, sigs, vers, snapOf, committed, failedW, bgSched, bgRun, bgRe, closing>>
TRetRel == /\ Is("Ret") /\ Ev.op = "rel" /\ Has(pend, Ev.t) /\ ~Has(snapOf, Ev.t) /\ NoObl
           /\ pend' = Del(pend, Ev.t)
           /\ UNCHANGED <<queue, wOwner, wCv, done, leader, grp, grpOps, inserted, lastSeq, sigs, vers, cap, snapOf, committed, failedW, bgSched, bgRun, bgRe, closing>>
\* C07 / C08: an iterator yields the view at the sequence captured when it was created
TRetScan == /\ Is("Ret") /\ Ev.op = "scan" /\ Has(pend, Ev.t) /\ Has(cap, Ev.t) /\ NoObl
            /\ CheckReads => (Ev.rc = 0 /\
                 LET full == SortedLive(ViewAt(cap[Ev.t]))
                     want == Prefix(IF Ev.dir = 1 THEN Rev(full) ELSE full, 40)
                 IN Ev.items = want)
            /\ pend' = Del(pend, Ev.t) /\ cap' = Del(cap, Ev.t)
            /\ UNCHANGED <<queue, wOwner, wCv, done, leader, grp, grpOps, inserted, lastSeq, sigs, vers, snapOf, committed, failedW, bgSched, bgRun, bgRe, closing>>
\* C20 / C08: a backup taken while others write opens in another process and holds exactly the contents the source had at ONE
\* point between the call and its return (a group whose log record is already written may be included as a whole)
InFlightView == [k \in Keys |-> LET w == {i \in 1..Len(grpOps) : grpOps[i][1] = k} IN
                              IF w = {} THEN ValAt(k, lastSeq) ELSE grpOps[CHOOSE i \in w : \A j \in w : j <= i][2]]
BackupOk(ev, s0) == /\ ev.rc = 0 /\ ev.open_rc = 0 /\ ev.status = 0
                    /\ \/ \E s \in s0..lastSeq : ev.items = SortedLive(ViewAt(s))
                       \/ (leader # 0 /\ grpOps # <<>> /\ ev.items = SortedLive(InFlightView))
TRetBackup == /\ Is("Ret") /\ Ev.op = "backup" /\ Has(pend, Ev.t) /\ pend[Ev.t].op = "backup" /\ Has(cap, Ev.t) /\ NoObl
              /\ ((CheckReads => BackupOk(Ev, cap[Ev.t])) = TRUE)
              /\ pend' = Del(pend, Ev.t) /\ cap' = Del(cap, Ev.t)
              /\ UNCHANGED <<queue, wOwner, wCv, done, leader, grp, grpOps, inserted, lastSeq, sigs, vers, snapOf, committed, failedW, bgSched, bgRun, bgRe, closing>>
TRetOther == /\ Is("Ret") /\ Ev.op \in {"flush", "compact", "prop", "close"} /\ Has(pend, Ev.t) /\ pend[Ev.t].op = Ev.op /\ NoObl
             /\ pend' = Del(pend, Ev.t)
             /\ UNCHANGED <<queue, wOwner, wCv, done, leader, grp, grpOps, inserted, lastSeq, sigs, vers, cap, snapOf, committed, failedW, bgSched, bgRun, bgRe, closing>>
\* C08: the final state equals applying all acknowledged writes in sequence order
TFinal == /\ Is("final") /\ NoObl /\ (CheckReads => (Ev.status = 0 /\ Ev.items = SortedLive(ViewAt(lastSeq)))) /\ queue = <<>> /\ leader = 0
          /\ U1

\* ---- ldb_write: queue, leadership, group commit ----
CountOf(t) == IF pend[t].op = "write" THEN Len(pend[t].ops) ELSE -1       \* flush requests enqueue a NULL batch
TEnq == /\ Is("WEnq") /\ Has(pend, Ev.t) /\ pend[Ev.t].op \in {"write", "flush"} /\ NoObl
        /\ Ev.count = CountOf(Ev.t)
        /\ (pend[Ev.t].op = "write" => Ev.sync = pend[Ev.t].sync)
        /\ queue' = Append(queue, Ev.w) /\ wOwner' = Put(wOwner, Ev.w, Ev.t) /\ wCv' = Put(wCv, Ev.cv, Ev.w)
        /\ UNCHANGED <<done, leader, grp, grpOps, inserted, lastSeq, sigs, pend, vers, cap, snapOf, committed, failedW, bgSched, bgRun, bgRe, closing>>
\* only the head of the queue leads, and only one leader at a time
TLead == /\ Is("WLead") /\ leader = 0 /\ queue # <<>> /\ Head(queue) = Ev.w /\ wOwner[Ev.w] = Ev.t /\ Ev.w \notin done /\ NoObl
         /\ leader' = Ev.w /\ grp' = <<>> /\ grpOps' = <<>> /\ inserted' = 0 /\ sigs' = {}
         /\ UNCHANGED <<queue, wOwner, wCv, done, lastSeq, pend, vers, cap, snapOf, committed, failedW, bgSched, bgRun, bgRe, closing>>
RECURSIVE OpsOf(_)
OpsOf(ms) == IF ms = <<>> THEN <<>>
             ELSE (IF Head(ms)[2] >= 0 THEN pend[wOwner[Head(ms)[1]]].ops ELSE <<>>) \o OpsOf(Tail(ms))
SyncOf(w) == IF pend[wOwner[w]].op = "write" THEN pend[wOwner[w]].sync ELSE 0
TGroup == /\ Is("WGroup") /\ leader # 0 /\ wOwner[leader] = Ev.t /\ grp = <<>> /\ NoObl
          /\ LET n == Len(Ev.members) IN
             /\ n >= 1 /\ n <= Len(queue)
             /\ [i \in 1..n |-> Ev.members[i][1]] = SubSeq(queue, 1, n)            \* a group is a prefix of the queue
             /\ \A i \in 1..n : Ev.members[i][2] = CountOf(wOwner[Ev.members[i][1]])  \* each member's whole batch, nothing else
             /\ \A i \in 2..n : SyncOf(Ev.members[i][1]) = 1 => SyncOf(leader) = 1   \* no sync write rides on a non-sync leader
          /\ Ev.first = lastSeq + 1                                                \* sequence numbers continue exactly
          /\ Ev.count = Len(OpsOf(Ev.members))
          /\ grp' = Ev.members /\ grpOps' = OpsOf(Ev.members) /\ inserted' = 0
          /\ UNCHANGED <<queue, wOwner, wCv, done, leader, lastSeq, sigs, pend, vers, cap, snapOf, committed, failedW, bgSched, bgRun, bgRe, closing>>
TLogAppend == /\ Is("LogAppend") /\ leader # 0 /\ wOwner[leader] = Ev.t /\ grp # <<>> /\ NoObl /\ U1
\* progress of the leader's group: +1 = the log was synced successfully, +2 = the group is in the memtable
TLogSync == /\ Is("LogSync") /\ leader # 0 /\ wOwner[leader] = Ev.t /\ SyncOf(leader) = 1 /\ NoObl
            /\ inserted' = (IF Ev.rc = 0 THEN 1 ELSE 0)
            /\ UNCHANGED <<queue, wOwner, wCv, done, leader, grp, grpOps, lastSeq, sigs, pend, vers, cap, snapOf, committed, failedW, bgSched, bgRun, bgRe, closing>>
TInsert == /\ Is("MemInsert") /\ leader # 0 /\ wOwner[leader] = Ev.t /\ grp # <<>> /\ NoObl
           /\ inserted' = inserted + (IF Ev.rc = 0 THEN 2 ELSE 0)
           /\ UNCHANGED <<queue, wOwner, wCv, done, leader, grp, grpOps, lastSeq, sigs, pend, vers, cap, snapOf, committed, failedW, bgSched, bgRun, bgRe, closing>>
\* publish only after the whole group is in the memtable; the group's operations take effect here, in queue order
RECURSIVE AddVers(_, _, _)
AddVers(vs, ops, s) == IF ops = <<>> THEN vs
                       ELSE AddVers([vs EXCEPT ![Head(ops)[1]] = Append(@, <<s + 1, Head(ops)[2]>>)], Tail(ops), s + 1)
TPublish == /\ Is("WPublish") /\ leader # 0 /\ wOwner[leader] = Ev.t /\ grp # <<>> /\ NoObl
            /\ Ev.last = lastSeq + Len(grpOps)
            \* a group led by a sync write is published (and acknowledged) only after its log records were fsynced (C02)
            /\ IF Ev.rc = 0 THEN inserted >= 2 /\ (SyncOf(leader) = 1 => inserted = 3) /\ vers' = AddVers(vers, grpOps, lastSeq) ELSE UNCHANGED vers
            /\ lastSeq' = Ev.last /\ sigs' = {}
            /\ UNCHANGED <<queue, wOwner, wCv, done, leader, grp, grpOps, inserted, pend, cap, snapOf, committed, failedW, bgSched, bgRun, bgRe, closing>>
\* condition variables: events come from inside the primitives, so a deleted call deletes its event
TSignal == /\ Is("CvSignal") /\ NoObl
           /\ sigs' = (IF Has(wCv, Ev.cv) THEN sigs \cup {wCv[Ev.cv]} ELSE sigs)
           /\ UNCHANGED <<queue, wOwner, wCv, done, leader, grp, grpOps, inserted, lastSeq, pend, vers, cap, snapOf, committed, failedW, bgSched, bgRun, bgRe, closing>>
TBcast == /\ Is("CvBcast") /\ NoObl /\ U1
TCvWait == /\ Is("CvWait") /\ NoObl /\ U1
TCvWoke == /\ Is("CvWoke") /\ NoObl /\ U1
\* the leader leaves: every popped follower and the new head of the queue must have been signalled (C09)
TDone == /\ Is("WDone") /\ leader = Ev.w /\ wOwner[Ev.w] = Ev.t /\ NoObl
         /\ LET n == IF grp = <<>> THEN 1 ELSE Len(grp)
                popped == SubSeq(queue, 1, n)
                rest == SubSeq(queue, n + 1, Len(queue))
                foll == ToSet(popped) \ {Ev.w}
                need == foll \cup (IF rest = <<>> THEN {} ELSE {Head(rest)})
            IN /\ popped[n] = Ev.last
               /\ (CheckSignals => need \subseteq sigs)
               /\ Ev.qlen = Len(rest)
               /\ queue' = rest /\ done' = done \cup foll
               /\ LET writers == {wOwner[w] : w \in {x \in ToSet(popped) : pend[wOwner[x]].op = "write"}} IN
                  IF Ev.rc = 0 THEN committed' = committed \cup writers /\ UNCHANGED failedW
                               ELSE failedW' = failedW \cup writers /\ UNCHANGED committed
         /\ leader' = 0 /\ grp' = <<>> /\ grpOps' = <<>>
         /\ UNCHANGED <<wOwner, wCv, inserted, lastSeq, sigs, pend, vers, cap, snapOf, bgSched, bgRun, bgRe, closing>>
TFollowerRet == /\ Is("WFollowerRet") /\ Ev.w \in done /\ wOwner[Ev.w] = Ev.t /\ NoObl
                /\ done' = done \ {Ev.w}
                /\ UNCHANGED <<queue, wOwner, wCv, leader, grp, grpOps, inserted, lastSeq, sigs, pend, vers, cap, snapOf, committed, failedW, bgSched, bgRun, bgRe, closing>>
TRoom == /\ (Is("RoomWait") \/ Is("RoomDelay") \/ Is("RoomErr") \/ Is("MemSwitch")) /\ leader # 0 /\ wOwner[leader] = Ev.t /\ NoObl /\ U1

\* ---- reads, snapshots, iterators capture exactly the published sequence, inside their call ----
TGetCap == /\ Is("GetCap") /\ Has(pend, Ev.t) /\ pend[Ev.t].op \in {"get", "snapget"} /\ NoObl
           /\ CheckReads => (IF Ev.snap = 0 THEN Ev.seq = lastSeq ELSE Has(snapOf, Ev.t) /\ Ev.seq = snapOf[Ev.t])
           /\ cap' = Put(cap, Ev.t, Ev.seq)
           /\ UNCHANGED <<queue, wOwner, wCv, done, leader, grp, grpOps, inserted, lastSeq, sigs, pend, vers, snapOf, committed, failedW, bgSched, bgRun, bgRe, closing>>
TGetDone == /\ Is("GetDone") /\ NoObl /\ U1
TSnapNew == /\ Is("SnapNew") /\ Has(pend, Ev.t) /\ pend[Ev.t].op = "snap" /\ (CheckReads => Ev.seq = lastSeq) /\ NoObl
            /\ snapOf' = Put(snapOf, Ev.t, Ev.seq)
            /\ UNCHANGED <<queue, wOwner, wCv, done, leader, grp, grpOps, inserted, lastSeq, sigs, pend, vers, cap, committed, failedW, bgSched, bgRun, bgRe, closing>>
TSnapRel == /\ Is("SnapRel") /\ Has(pend, Ev.t) /\ pend[Ev.t].op = "rel" /\ Has(snapOf, Ev.t) /\ NoObl
            /\ snapOf' = Del(snapOf, Ev.t)
            /\ UNCHANGED <<queue, wOwner, wCv, done, leader, grp, grpOps, inserted, lastSeq, sigs, pend, vers, cap, committed, failedW, bgSched, bgRun, bgRe, closing>>
TIterNew == /\ Is("IterNew") /\ NoObl
            /\ IF Has(pend, Ev.t) /\ pend[Ev.t].op = "scan"
               THEN (CheckReads => Ev.seq = lastSeq) /\ cap' = Put(cap, Ev.t, Ev.seq) ELSE UNCHANGED cap
            /\ UNCHANGED <<queue, wOwner, wCv, done, leader, grp, grpOps, inserted, lastSeq, sigs, pend, vers, snapOf, committed, failedW, bgSched, bgRun, bgRe, closing>>
TIterFree == /\ Is("IterFree") /\ NoObl /\ U1

\* ---- background work: scheduling and wake-ups (C09) ----
\* a background call is scheduled only when none is scheduled or running - except by the running call itself,
\* which clears the flag and may reschedule just before it ends
TBgSched == /\ Is("BgSched")
            /\ \/ bgSched = 0 /\ bgRun = 0 /\ bgSched' = 1 /\ UNCHANGED bgRe
               \/ bgSched = 1 /\ bgRun = Ev.t /\ bgRe = 0 /\ bgRe' = 1 /\ UNCHANGED bgSched
            /\ oblig' = Put(oblig, Ev.t, "PoolSchedule")
            /\ UNCHANGED <<queue, wOwner, wCv, done, leader, grp, grpOps, inserted, lastSeq, sigs, pend, vers, cap, snapOf, committed, failedW, bgRun, closing>>
\* queued work must be announced to the pool's worker
TPoolSchedule == /\ Is("PoolSchedule") /\ oblig' = Put(oblig, Ev.t, "CvSignal") /\ U1
TPoolOther == /\ (Is("PoolRun") \/ Is("PoolStop") \/ Is("PoolWorkerExit")) /\ NoObl /\ U1
TBgStart == /\ Is("BgStart") /\ bgSched = 1 /\ bgRun = 0 /\ NoObl /\ bgRun' = Ev.t /\ bgRe' = 0
            /\ UNCHANGED <<queue, wOwner, wCv, done, leader, grp, grpOps, inserted, lastSeq, sigs, pend, vers, cap, snapOf, committed, failedW, bgSched, closing>>
\* the end of every background call broadcasts "background work finished" (after deciding about rescheduling)
TBgEnd == /\ Is("BgEnd") /\ bgSched = 1 /\ bgRun = Ev.t /\ Ev.resched = bgRe
          /\ (CheckSignals => (Has(lastEv, Ev.t) /\ lastEv[Ev.t] = "CvBcast"))
          /\ NoObl
          /\ bgSched' = bgRe /\ bgRun' = 0 /\ bgRe' = 0
          /\ UNCHANGED <<queue, wOwner, wCv, done, leader, grp, grpOps, inserted, lastSeq, sigs, pend, vers, cap, snapOf, committed, failedW, closing>>
TFlushInComp == /\ Is("FlushInComp") /\ (CheckSignals => (Has(lastEv, Ev.t) /\ lastEv[Ev.t] = "CvBcast")) /\ NoObl /\ U1
TBgError == /\ Is("BgError") /\ oblig' = Put(oblig, Ev.t, "CvBcast") /\ U1
TCloseStart == /\ Is("CloseStart") /\ NoObl /\ U1
\* close proceeds only when no background call is scheduled or running
TCloseWaited == /\ Is("CloseWaited") /\ (CheckSignals => (bgSched = 0 /\ bgRun = 0 /\ Ev.sched = 0)) /\ NoObl /\ U1
TCloseDone == /\ Is("CloseDone") /\ NoObl /\ U1
TNote == /\ (Is("open") \/ Is("opts") \/ Is("ManualSet") \/ Is("ManualDone")) /\ NoObl /\ U1

Next == \/ TReset \/ TCall \/ TRetWrite \/ TRetGet \/ TRetSnap \/ TRetSnapGet \/ TRetRel \/ TRetScan \/ TRetBackup \/ TRetOther \/ TFinal
        \/ TEnq \/ TLead \/ TGroup \/ TLogAppend \/ TLogSync \/ TInsert \/ TPublish \/ TSignal \/ TBcast \/ TCvWait \/ TCvWoke
        \/ TDone \/ TFollowerRet \/ TRoom \/ TGetCap \/ TGetDone \/ TSnapNew \/ TSnapRel \/ TIterNew \/ TIterFree
        \/ TBgSched \/ TPoolSchedule \/ TPoolOther \/ TBgStart \/ TBgEnd \/ TFlushInComp \/ TBgError
        \/ TCloseStart \/ TCloseWaited \/ TCloseDone \/ TNote
Spec == Init /\ [][Next]_vars

\* ---- invariants ----
OneLeader == leader = 0 \/ (queue # <<>> /\ Head(queue) = leader)
=============================================================================
