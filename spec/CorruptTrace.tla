---------------------------- MODULE CorruptTrace ----------------------------
(* C11: a closed database is damaged at one place (bit flip, 0x00, 0xFF, truncation, zeroed sector) and read  *)
(* back with paranoid checks and checksum verification.  The oracle is thin and said plainly: the truth is   *)
(* the fold of all batches (the database was closed cleanly before the damage); an error status is always    *)
(* acceptable, a wrong answer never is.                                                                       *)
(*   table damage : a lookup returns the true value or an error; a scan that ends OK yields exactly the live  *)
(*                  keys with their values; a scan that ends with an error yielded only entries that were     *)
(*                  written at some time;                                                                      *)
(*   log / MANIFEST / CURRENT damage : open may fail; if it succeeds the contents are the fold of WHOLE        *)
(*                  batches that were issued - never a fabricated value, never part of a batch.                *)
EXTENDS Naturals, Integers, Sequences, FiniteSets, TLC, Json, IOUtils
T == ndJsonDeserialize(IOEnv.TRACE)
Bat == T[1].batches
NDK == 12
DKeys == 0..(NDK - 1)
NOTFOUND == 30001
VARIABLE l
Ev == T[l]
Init == l = 2
RECURSIVE ApplyKv(_, _)
ApplyKv(m, ops) == IF ops = <<>> THEN m ELSE ApplyKv([m EXCEPT ![Head(ops)[1]] = Head(ops)[2]], Tail(ops))
RECURSIVE FoldFrom(_, _, _)
FoldFrom(m, b, S) == IF b > Len(Bat) THEN m ELSE FoldFrom(TLCEval(IF b \in S THEN ApplyKv(m, Bat[b].ops) ELSE m), b + 1, S)
Fold(S) == FoldFrom([k \in DKeys |-> 0], 1, S)
DataOf(pairs) == ApplyKv([k \in DKeys |-> 0], pairs)
SetOf(s) == {s[j] : j \in 1..Len(s)}
All == 1..Len(Bat)
Truth == Fold(All)
\* every value ever written to key k
Ever(k) == UNION {{Bat[b].ops[j][2] : j \in {x \in 1..Len(Bat[b].ops) : Bat[b].ops[x][1] = k}} : b \in All}
PairsWritten(pairs) == \A i \in 1..Len(pairs) : pairs[i][2] \in Ever(pairs[i][1]) /\ pairs[i][2] > 0
\* lookups: the truth or an error
GetsOk == \A i \in 1..Len(Ev.gets) :
            LET k == Ev.gets[i][1]  rc == Ev.gets[i][2]  v == Ev.gets[i][3] IN
            (rc = 0 => (v = Truth[k] /\ v # 0)) /\ (rc = NOTFOUND => Truth[k] = 0)
ScanOk(pairs, status, complete) == IF status = 0 THEN DataOf(pairs) = Truth /\ complete ELSE PairsWritten(pairs)
TableProbe == Ev.rc # 0 \/ (/\ GetsOk
                            /\ ScanOk(Ev.data, Ev.status, SetOf(Ev.markers) = All /\ Ev.bad = 0)
                            /\ ScanOk(Ev.bwd, Ev.bwdstatus, TRUE))
\* metadata / log damage: whole issued batches or a failed open; lookups agree with the scan or report an error
MetaProbe == Ev.rc # 0 \/ (/\ SetOf(Ev.markers) \subseteq All
                           /\ (Ev.status = 0 => (DataOf(Ev.data) = Fold(SetOf(Ev.markers)) /\ Ev.bad = 0))
                           /\ (Ev.status # 0 => PairsWritten(Ev.data))
                           /\ \A i \in 1..Len(Ev.gets) :
                                LET k == Ev.gets[i][1]  rc == Ev.gets[i][2]  v == Ev.gets[i][3] IN
                                (rc = 0 => v \in Ever(k)) /\ ((rc = 0 /\ Ev.status = 0) => v = DataOf(Ev.data)[k]))
ProbeOk == IF Ev.kind = "table" THEN TableProbe ELSE MetaProbe
Next == l <= Len(T) /\ Ev.e = "probe" /\ (ProbeOk = TRUE) /\ l' = l + 1
Spec == Init /\ [][Next]_l
=============================================================================
