------------------------------ MODULE SepTrace ------------------------------
(* What the real shortest_separator / short_successor (bytewise and internal-key) returned, checked against the    *)
(* contract of Sep.tla. `same` counts how many results equal the transcription (informative: another algorithm    *)
(* that keeps the contract is not an alarm).                                                                       *)
EXTENDS Sep, Json, IOUtils
T == ndJsonDeserialize(IOEnv.TRACE)
VARIABLES l, same
vars == <<l, same>>
Ev == T[l]
Is(e) == l <= Len(T) /\ Ev.e = e /\ l' = l + 1
Init == l = 1 /\ same = 0
Cnt(b) == same' = same + (IF b THEN 1 ELSE 0)
TSep == Is("sep") /\ (SepOk(Ev.a, Ev.b, Ev.o) = TRUE) /\ Cnt(Ev.o = ShortSep(Ev.a, Ev.b))
TSucc == Is("succ") /\ (SuccOk(Ev.a, Ev.o) = TRUE) /\ Cnt(Ev.o = ShortSucc(Ev.a))
TISep == Is("isep") /\ (ISepOk(Ev.a, Ev.b, Ev.o) = TRUE) /\ Cnt(Ev.o = ISep(Ev.a, Ev.b))
TISucc == Is("isucc") /\ (ISuccOk(Ev.a, Ev.o) = TRUE) /\ Cnt(Ev.o = ISucc(Ev.a))
Next == TSep \/ TSucc \/ TISep \/ TISucc
Spec == Init /\ [][Next]_vars
=============================================================================
