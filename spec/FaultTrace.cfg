SPECIFICATION Spec
CHECK_DEADLOCK FALSE
INVARIANT FaultOpenOk
INVARIANT FaultAckedSurvive
INVARIANT FaultNothingElse
INVARIANT FaultAtomic
INVARIANT FaultReadsCorrect
