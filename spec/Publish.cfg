SPECIFICATION Spec
CONSTANTS
  Nodes = {1, 2}
  Readers = {1, 2}
  PublishOrder = "release"
  ReadOrder = "acquire"
INVARIANT NoUninitRead
CHECK_DEADLOCK FALSE
