SPECIFICATION TSpec
CONSTANTS
  NKeys = 16
  NL = 7
  MaxMemLevel = 2
  MaxSeq = 0
  MaxFiles = 0
  MaxSnaps = 0
  MaxNextF = 0
  TrackFiles = TRUE
  AllowRepair = FALSE
  UseBoundary = TRUE
  DropTombstoneAlways = FALSE
  CheckFlushLevel = FALSE
  CheckSS = FALSE
  CheckObsolete = TRUE
  CheckLs = TRUE
  CheckReport = FALSE
CHECK_DEADLOCK FALSE
INVARIANT InvNoLiveFileMissing
