SPECIFICATION Spec
CONSTANTS
  NKeys = 4
  MaxSeq = 7
  NCh = 3
  Snaps = {7, 5, 3}
  MaxOps = 14
  Incremental = TRUE
  Emit = 2
VIEW view
INVARIANT Agree
INVARIANT ForwardHasCurrent
CHECK_DEADLOCK FALSE
