SPECIFICATION Spec
CHECK_DEADLOCK FALSE
INVARIANT ModelNoLiveFileMissing
