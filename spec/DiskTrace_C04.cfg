SPECIFICATION Spec
CHECK_DEADLOCK FALSE
INVARIANT RecAtomic
INVARIANT RecNothingElse
