----------------------------- MODULE WFileTrace -----------------------------
(* The calls of a real ldb_wfile_t (driver harness/drv/wfile.c) replayed through WFile: each event carries the     *)
(* call, the sizes of the write(2) requests the real code issued during it (ev.wr; with short writes injected by   *)
(* the driver the retries of the write loop are not comparable: ev.short = 1, only the size and the content are), the file size after the call, whether the bytes that    *)
(* reached the file during the call are the next bytes of the appended stream (ev.ok, compared by the driver        *)
(* against the pattern of the stream position), and whether an fsync was issued after the last write (ev.fs).      *)
EXTENDS WFile, Json, IOUtils, TLC
T == ndJsonDeserialize(IOEnv.TRACE)
VARIABLES l, same
tvars == <<vars, l, same>>
Ev == T[l]
Is(e) == l <= Len(T) /\ Ev.e = e /\ l' = l + 1
\* What the property needs from the real file, whatever its buffering policy: the file holds a prefix of the appended stream
\* (ev.ok: the new bytes are the next bytes of the stream), and all of it once flush / sync / close returned.
Post ==
  /\ (Ev.rc = 0) = TRUE
  /\ (Ev.ok = 1) = TRUE
  /\ (Ev.size <= Len(appended')) = TRUE
  /\ (lastAct' \in {"Flush", "Sync", "Close"} => Ev.size = Len(appended')) = TRUE
\* informative: calls whose write requests and file size are exactly those of the transcription (another buffering policy
\* that keeps Post is not an alarm)
Cnt == same' = same + (IF (Ev.short = 1 \/ Ev.wr = wr') /\ Ev.size = Len(disk') THEN 1 ELSE 0)
TInit == Init /\ l = 1 /\ same = 0
TReset == Is("Reset") /\ buf' = <<>> /\ disk' = <<>> /\ appended' = <<>> /\ synced' = 0 /\ wr' = <<>> /\ isopen' = TRUE /\ lastAct' = "Init" /\ same' = same
TAppend == Is("Append") /\ WAppend(Ev.n) /\ Post /\ Cnt
TFlush == Is("Flush") /\ WFlush /\ Post /\ Cnt
TSync == Is("Sync") /\ WSync /\ Post /\ Cnt /\ (Ev.fs = 1) = TRUE
TClose == Is("Close") /\ WClose /\ Post /\ Cnt
TNext == TReset \/ TAppend \/ TFlush \/ TSync \/ TClose
TSpec == TInit /\ [][TNext]_tvars
=============================================================================
