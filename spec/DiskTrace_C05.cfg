SPECIFICATION Spec
CHECK_DEADLOCK FALSE
INVARIANT RecOpenOk
INVARIANT RecPrefix
INVARIANT RecAtomic
INVARIANT RecAgain
INVARIANT RecFollow
INVARIANT RecNothingElse
