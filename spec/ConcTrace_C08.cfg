SPECIFICATION Spec
CONSTANTS
  CheckSignals = FALSE
  CheckReads = TRUE
CHECK_DEADLOCK FALSE
INVARIANT OneLeader
