----------------------------- MODULE EditTrace -----------------------------
(* Each trace line: the edits an INDEPENDENT decoder read from the bytes of a MANIFEST that lcdb wrote, the  *)
(* layout and counters the running database reported when it last installed a version before closing, and   *)
(* what the next open recovered from the same file.                                                          *)
EXTENDS Edit, TLC, Json, IOUtils
T == ndJsonDeserialize(IOEnv.TRACE)
VARIABLE l
Ev == T[l]
Init == l = 1
FilesOf(rep) == {<<f[1], f[2], f[3]>> : f \in SeqSet(rep.files)}
FoldOk == LET ed == TLCEval(Ev.edits)
              st == TLCEval(Fold(EmptyState, ed)) IN
          /\ ed # <<>> /\ ed[1].cmp = Ev.comparator          \* the first record names the comparator
          /\ AllApply(EmptyState, ed) /\ WellFormedState(st)
          \* replaying reproduces exactly what was in effect
          /\ st.files = FilesOf(Ev.reported)
          /\ st.log = Ev.reported.log /\ st.prevlog = Ev.reported.prevlog
          /\ st.lastseq = Ev.reported.lastseq /\ st.nextfile = Ev.reported.nextfile
          \* ... and the next open recovers the same version (its counters only move forward)
          /\ ("recovered" \in DOMAIN Ev) =>
                /\ st.files = FilesOf(Ev.recovered)
                /\ Ev.recovered.log = st.log /\ Ev.recovered.lastseq = st.lastseq
                /\ Ev.recovered.nextfile > st.nextfile
\* (FoldOk = TRUE): evaluated as a value; as an action conjunct TLC would branch on every disjunction inside it
\* encoding round trips on boundary values (numbers are carried as decimal strings: they exceed TLC's integers):
\*   what lcdb exported, decoded by the independent decoder, is the edit that was built; importing those bytes and
\*   exporting again gives the same bytes; bytes from the independent encoder survive import + export unchanged
CodecOk == Ev.got = Ev.want /\ Ev.reimport_ok = 1 /\ Ev.reexport = Ev.bytes /\ Ev.foreign_ok = 1 /\ Ev.foreign_back = Ev.foreign
Next == \/ l <= Len(T) /\ Ev.e = "manifest" /\ (FoldOk = TRUE) /\ l' = l + 1
        \/ l <= Len(T) /\ Ev.e = "codec" /\ (CodecOk = TRUE) /\ l' = l + 1
Spec == Init /\ [][Next]_l
=============================================================================
