SPECIFICATION Spec
CONSTANTS
  B = 32768
  H = 7
CHECK_DEADLOCK FALSE
