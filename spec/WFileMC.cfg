SPECIFICATION Spec
CONSTANTS
  B = 3
  MaxN = 8
  MaxTotal = 14
CONSTRAINT Bound
INVARIANTS Conserve BufBound FlushedAll SyncedAll SyncedMono ReqBound
CHECK_DEADLOCK FALSE
