------------------------------ MODULE PinTrace ------------------------------
(* C10 (reads of files being retired): the pin protocol of the table cache.  An open table lives in a cache entry; *)
(* whoever uses it holds a reference ("pin") on that entry, and the entry's deleter frees the table only when the     *)
(* last reference is gone.  Events (guarded hooks, recorded in real multi-threaded runs):                            *)
(*   tcpin   (t, handle, table)   find_table handed thread t a referenced cache entry holding `table`               *)
(*   lrurel  (t, handle)          ldb_lru_release by thread t                                                        *)
(*   tbluse  (t, table, 1 / 0)    ldb_table_internal_get entered / left by thread t                                  *)
(*   tblfree (table)              ldb_table_destroy                                                                   *)
(* A lookup may run only while its thread holds a pin on an entry of that table, from entry to exit; a table is     *)
(* never destroyed while a lookup is inside it.  This holds in every schedule, so a lost pin is reported even when   *)
(* the eviction that would free the table did not happen in the recorded run.                                        *)
EXTENDS Naturals, Integers, Sequences, FiniteSets, TLC, Json, IOUtils
T == ndJsonDeserialize(IOEnv.TRACE)
VARIABLES l, pins, tblOf, inuse
vars == <<l, pins, tblOf, inuse>>
Ev == T[l]
Is(o) == l <= Len(T) /\ Ev.e = "Acc" /\ Ev.obj = o /\ l' = l + 1
Get(f, k) == IF k \in DOMAIN f THEN f[k] ELSE 0
Put(f, k, v) == (k :> v) @@ [x \in DOMAIN f \ {k} |-> f[x]]
Init == l = 1 /\ pins = <<>> /\ tblOf = <<>> /\ inuse = <<>>
\* handles on which thread t holds a pin and which hold table tb
Pinned(t, tb) == \E h \in DOMAIN tblOf : tblOf[h] = tb /\ Get(pins, <<t, h>>) > 0
TPin == /\ Is("tcpin")
        /\ pins' = Put(pins, <<Ev.t, Ev.inst>>, Get(pins, <<Ev.t, Ev.inst>>) + 1)
        /\ tblOf' = Put(tblOf, Ev.inst, Ev.w) /\ UNCHANGED inuse
\* releases of handles of other caches (block cache) are not tracked; a tracked handle is released by a thread that pinned it
TRel == /\ Is("lrurel")
        /\ IF Ev.inst \in DOMAIN tblOf /\ Get(pins, <<Ev.t, Ev.inst>>) > 0
           THEN pins' = Put(pins, <<Ev.t, Ev.inst>>, Get(pins, <<Ev.t, Ev.inst>>) - 1)
           ELSE UNCHANGED pins
        /\ UNCHANGED <<tblOf, inuse>>
TUse == /\ Is("tbluse")
        /\ (Pinned(Ev.t, Ev.inst) = TRUE)                          \* at entry and at exit
        /\ inuse' = Put(inuse, Ev.inst, IF Ev.w = 1 THEN Get(inuse, Ev.inst) + 1 ELSE Get(inuse, Ev.inst) - 1)
        /\ UNCHANGED <<pins, tblOf>>
TFree == /\ Is("tblfree") /\ Get(inuse, Ev.inst) = 0
         /\ tblOf' = [h \in {x \in DOMAIN tblOf : tblOf[x] # Ev.inst} |-> tblOf[h]]
         /\ UNCHANGED <<pins, inuse>>
\* a new epoch (close / open): everything is released by then
TEpoch == l <= Len(T) /\ Ev.e \in {"CloseWaited", "Reset", "open"} /\ l' = l + 1 /\ UNCHANGED <<pins, tblOf, inuse>>
Next == TPin \/ TRel \/ TUse \/ TFree \/ TEpoch
Spec == Init /\ [][Next]_vars
=============================================================================
