SPECIFICATION Spec
CONSTANT AllowD1 = TRUE
CHECK_DEADLOCK FALSE
