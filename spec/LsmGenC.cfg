SPECIFICATION GSpecC
CONSTANTS
  NKeys = 5
  NL = 4
  MaxMemLevel = 2
  MaxSeq = 0
  MaxFiles = 0
  MaxNextF = 0
  TrackFiles = FALSE
  MaxSnaps = 0
  AllowRepair = FALSE
  UseBoundary = TRUE
  DropTombstoneAlways = FALSE
  MaxOps = 24
  WithBig = FALSE
  Target = {}
  OutDir = "/tmp/lsmgen_out"
INVARIANT ReadLatest
INVARIANT LevelsWellFormed
INVARIANT Recency
CONSTRAINT GConstraintC
CHECK_DEADLOCK FALSE
