----------------------------- MODULE KvTrace -----------------------------
(* API-level trace validation (no hooks): every call/return event of a    *)
(* real single-threaded lcdb execution must be a step of the abstract     *)
(* store Kv.  Properties decided here: C01 (get/has = latest write),      *)
(* C06 (snapshot reads frozen), C07 (iterator cursor after every call).   *)
(* Engine-internal operations (flush, compactions, reopen) are stuttering *)
(* steps of Kv: that is exactly the claim of C01.                         *)
EXTENDS Naturals, Sequences, FiniteSets, TLC, Json, IOUtils

NKeys == 16
INSTANCE Kv

T == ndJsonDeserialize(IOEnv.TRACE)

CONSTANT AllowD1    \* TRUE only in the C19 configuration: tolerate (and report) the known defect D1 after a repair
VARIABLES olds,     \* key -> set of values the key held before its current one (0 = a deletion)
          repaired, \* a repair happened in this execution
          l,        \* next trace line
          cur,      \* Kv state: key -> value id
          snaps,    \* snapshot id -> frozen view
          iters     \* iterator id -> [view, pos]
vars == <<l, cur, snaps, iters, olds, repaired>>

Init == l = 1 /\ cur = EmptyMap /\ snaps = <<>> /\ iters = <<>> /\ olds = [k \in Keys |-> {}] /\ repaired = FALSE
RECURSIVE OldsAfter(_, _, _)
OldsAfter(o, m, ops) == IF ops = <<>> THEN o
                        ELSE LET k == Head(ops)[1] IN OldsAfter([o EXCEPT ![k] = IF m[k] # Absent \/ o[k] # {} THEN @ \cup {m[k]} ELSE @],
                                                                [m EXCEPT ![k] = Head(ops)[2]], Tail(ops))
Ev == T[l]
Is(e) == l <= Len(T) /\ Ev.e = e /\ l' = l + 1
Has(f, id) == id \in DOMAIN f
Without(f, id) == [i \in DOMAIN f \ {id} |-> f[i]]
ViewOf(s) == IF s = 0 THEN cur ELSE snaps[s]
\* the older values of each key at the moment snapshot s was taken (stored next to the view under id + 1000)
OldsOf(s) == IF s = 0 THEN olds ELSE snaps[s + 1000]

\* ---- writes: an acknowledged write (rc = 0) takes effect, a failed one must not ----
TPut == /\ Is("put") /\ Ev.rc = 0
        /\ cur' = [cur EXCEPT ![Ev.k] = Ev.v] /\ olds' = OldsAfter(olds, cur, <<<<Ev.k, Ev.v>>>>) /\ UNCHANGED <<snaps, iters, repaired>>
TDel == /\ Is("del") /\ Ev.rc = 0
        /\ cur' = [cur EXCEPT ![Ev.k] = Absent] /\ olds' = OldsAfter(olds, cur, <<<<Ev.k, Absent>>>>) /\ UNCHANGED <<snaps, iters, repaired>>
TBatch == /\ Is("batch") /\ Ev.rc = 0
          /\ cur' = ApplyOps(cur, Ev.ops) /\ olds' = OldsAfter(olds, cur, Ev.ops) /\ UNCHANGED <<snaps, iters, repaired>>

\* ---- reads: C01 / C06 ----
TGet == /\ Is("get") /\ (Ev.snap = 0 \/ Has(snaps, Ev.snap))
        /\ \/ Ev.r = ViewOf(Ev.snap)[Ev.k]
           \* named deviation (known finding D1): after a repair a point lookup may return an OLDER value of the key
           \* (never one that was not written); iterators are still exact
           \* (a snapshot taken after the repair sees the same stale value: only values that were already older when it was taken)
           \/ AllowD1 /\ repaired /\ Ev.r \in OldsOf(Ev.snap)[Ev.k] /\ PrintT(<<"pr", "d1", l>>)
        /\ UNCHANGED <<cur, snaps, iters, olds, repaired>>
THas == /\ Is("has") /\ (Ev.snap = 0 \/ Has(snaps, Ev.snap))
        /\ Ev.r = (IF ViewOf(Ev.snap)[Ev.k] = Absent THEN 0 ELSE 1)
        /\ UNCHANGED <<cur, snaps, iters, olds, repaired>>

TSnap == /\ Is("snap") /\ ~Has(snaps, Ev.id)
         /\ snaps' = snaps @@ (Ev.id :> cur) @@ ((Ev.id + 1000) :> olds) /\ UNCHANGED <<cur, iters, olds, repaired>>
TRel == /\ Is("rel") /\ Has(snaps, Ev.id)
        /\ snaps' = Without(Without(snaps, Ev.id), Ev.id + 1000) /\ UNCHANGED <<cur, iters, olds, repaired>>

\* ---- iterators: C07 ----
TIterNew == /\ Is("iter_new") /\ ~Has(iters, Ev.id) /\ (Ev.snap = 0 \/ Has(snaps, Ev.snap))
            /\ iters' = iters @@ (Ev.id :> [view |-> ViewOf(Ev.snap), pos |-> Inv])
            /\ UNCHANGED <<cur, snaps, olds, repaired>>
TIterFree == /\ Is("iter_free") /\ Has(iters, Ev.id)
             /\ iters' = Without(iters, Ev.id) /\ UNCHANGED <<cur, snaps, olds, repaired>>
TIt == /\ Is("it") /\ Has(iters, Ev.id)
       /\ LET it == iters[Ev.id]
              np == NewPos(it.view, it.pos, Ev.op, Ev.t) IN
          /\ (Ev.op \in {"next", "prev"} => it.pos # Inv)   \* the driver only steps a valid iterator
          /\ Ev.valid = (IF np = Inv THEN 0 ELSE 1)
          /\ (np # Inv => Ev.k = np /\ Ev.v = it.view[np])
          /\ Ev.status = 0
          /\ iters' = [iters EXCEPT ![Ev.id].pos = np]
       /\ UNCHANGED <<cur, snaps, olds, repaired>>
\* full scans: the driver reports the yielded (key, value) list and the final status
ScanOf(v) == LET ks == Live(v) IN
             [i \in 1..Cardinality(ks) |->
                LET k == CHOOSE x \in ks : Cardinality({y \in ks : y < x}) = i - 1 IN <<k, v[k]>>]
Rev(s) == [i \in 1..Len(s) |-> s[Len(s) + 1 - i]]
TScan == /\ Is("scan") /\ (Ev.snap = 0 \/ Has(snaps, Ev.snap))
         /\ Ev.status = 0
         /\ Ev.items = (IF Ev.dir = "fwd" THEN ScanOf(ViewOf(Ev.snap)) ELSE Rev(ScanOf(ViewOf(Ev.snap))))
         /\ UNCHANGED <<cur, snaps, iters, olds, repaired>>

\* ---- engine-internal operations are stuttering steps of the abstract store ----
TStutter == /\ (Is("flush") \/ Is("compact") \/ Is("compact_all") \/ Is("note"))
            /\ UNCHANGED <<cur, snaps, iters, olds, repaired>>
TReopen == /\ Is("reopen") /\ Ev.rc = 0 /\ snaps = <<>> /\ iters = <<>>
           /\ UNCHANGED <<cur, snaps, iters, olds, repaired>>
TReset == Is("Reset") /\ cur' = EmptyMap /\ snaps' = <<>> /\ iters' = <<>> /\ olds' = [k \in Keys |-> {}] /\ repaired' = FALSE
\* C19: repair followed by open is a stuttering step of the abstract store - nothing surviving is lost
TRepair == /\ Is("repair") /\ Ev.rc = 0 /\ snaps = <<>> /\ iters = <<>> /\ repaired' = TRUE
           /\ UNCHANGED <<cur, snaps, iters, olds>>

Next == \/ TPut \/ TDel \/ TBatch \/ TGet \/ THas \/ TSnap \/ TRel
        \/ TIterNew \/ TIterFree \/ TIt \/ TScan \/ TStutter \/ TReopen \/ TReset \/ TRepair
Spec == Init /\ [][Next]_vars
NotAccepted == l <= Len(T)
=============================================================================
