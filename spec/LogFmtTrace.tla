---------------------------- MODULE LogFmtTrace ----------------------------
(* Conformance of the real log writer and reader with LogFmt: each trace line holds one vector (initial    *)
(* offset, record lengths), the physical records an INDEPENDENT decoder found in the bytes the real writer *)
(* produced, and what the real reader returned on every cut / damaged copy of those bytes.                 *)
EXTENDS LogFmt, Integers, Json, IOUtils
T == ndJsonDeserialize(IOEnv.TRACE)
VARIABLE l
Ev == T[l]
Init == l = 1
SetOfSeq(s) == {s[j] : j \in 1..Len(s)}
\* the bytes are exactly the layout the specification prescribes (padding, fragment types, lengths, valid checksums)
LayoutOk == LET P == Layout(Ev.off, Ev.lens) IN
            /\ Len(Ev.phys) = Len(P)
            /\ \A i \in 1..Len(P) : Ev.phys[i] = <<P[i].pad, P[i].type, P[i].len, 1>>
            /\ Ev.total = EndOf(P, Ev.off)
            /\ Ev.trailers_zero = 1
            /\ WellFormed(P) /\ RoundTrip(Ev.off, Ev.lens)
\* returned records: in order, the expected indices with their lengths (an empty record is identified by position)
Matches(recs, idxs, lens) == /\ Len(recs) = Len(idxs)
                             /\ \A i \in 1..Len(recs) : recs[i][2] = lens[idxs[i]] /\ (recs[i][2] > 0 => recs[i][1] = idxs[i])
Upto(n) == [i \in 1..n |-> i]
SortSet(S) == [i \in 1..Cardinality(S) |-> CHOOSE x \in S : Cardinality({y \in S : y < x}) = i - 1]
\* cutting the file at any byte yields precisely the records wholly before the cut, and no error is reported
CutsOk == LET P == Layout(Ev.off, Ev.lens) IN
          \A c \in 1..Len(Ev.cuts) :
             LET cut == Ev.cuts[c].at  n == ReadCut(P, cut) IN
             /\ Matches(Ev.cuts[c].recs, Upto(n), Ev.lens)
             /\ Ev.cuts[c].drops = 0
\* altering bytes never yields a record that was not written, reports the drop, and reading resumes at the next block
DamageOk == LET P == Layout(Ev.off, Ev.lens) IN
            \A d \in 1..Len(Ev.dmg) :
               LET i == Ev.dmg[d].phys
                   surv == SortSet(SurvivorsDamaged(P, i))
                   before == SortSet({j \in 1..NRecs(P) : \A x \in 1..Len(P) : P[x].rec = j => P[x].stop <= P[i].start})
                   lastBlock == BlockOf(P[i].start) = BlockOf(Ev.total - 1)
               IN /\ \A r \in 1..Len(Ev.dmg[d].recs) : Ev.dmg[d].recs[r][1] # -1          \* nothing fabricated
                  /\ \/ Matches(Ev.dmg[d].recs, surv, Ev.lens) /\ Ev.dmg[d].drops >= 1 /\ ResumesNextBlock(P, i)
                     \* a damaged LENGTH field in the final block that points past the end of the file is, by construction,
                     \* indistinguishable from a torn tail, which must be treated as end-of-log silently
                     \/ Ev.dmg[d].cls = "len" /\ lastBlock /\ Matches(Ev.dmg[d].recs, before, Ev.lens)
                     \* named deviation (known finding, see DESIGN.md): an EMPTY record whose type byte becomes 0 looks like a
                     \* preallocated region; the reader skips the rest of the block without reporting it
                     \/ Ev.dmg[d].zerotype = 1 /\ Matches(Ev.dmg[d].recs, surv, Ev.lens)
                     \* a whole block reads back as zeros: it looks like a preallocated region and is skipped; every record with a
                     \* fragment in it is dropped as a whole, and the drop is reported when the block interrupts a fragmented record
                     \* an unknown record type with a valid checksum: exactly the logical record it belongs to is dropped (and
                     \* reported); the records before and after it, also those in the same block, are returned
                     \/ Ev.dmg[d].cls = "unknowntype" /\ Ev.dmg[d].drops >= 1
                        /\ Matches(Ev.dmg[d].recs, SortSet({j \in 1..NRecs(P) : j # P[i].rec}), Ev.lens)
                     \/ Ev.dmg[d].cls = "zeroblock" /\ Matches(Ev.dmg[d].recs, surv, Ev.lens)
                        /\ (P[i].type \in {MIDDLE, LAST} => Ev.dmg[d].drops >= 1)
\* (X = TRUE): evaluated as values; as action conjuncts TLC would branch on every disjunction inside them
Next == /\ l <= Len(T) /\ Ev.e = "vec" /\ (LayoutOk = TRUE) /\ (CutsOk = TRUE) /\ (DamageOk = TRUE) /\ l' = l + 1
Spec == Init /\ [][Next]_l
=============================================================================
