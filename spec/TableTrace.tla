----------------------------- MODULE TableTrace -----------------------------
(* One line per table file that lcdb's builder wrote: the structure an independent reader decoded from the  *)
(* bytes (Table.tla terms), byte-level facts the projection established, and what the real reader returned *)
(* for seeks / point lookups / scans on that file.                                                         *)
EXTENDS Table, TLC, Json, IOUtils
T == ndJsonDeserialize(IOEnv.TRACE)
VARIABLE l
Ev == T[l]
Init == l = 1
Flags == /\ Ev.entries_equal = 1      \* the independent reader decodes exactly the entries that were added, in order
         /\ Ev.sorted = 1 /\ Ev.crc_ok = 1 /\ Ev.handles_tile = 1 /\ Ev.footer_ok = 1 /\ Ev.shared0 = 1
         /\ Ev.leveldb_equal = 1      \* genuine LevelDB reads the same entries
         /\ Ev.filter_ok = 1          \* offsets monotone, one filter per 2 KiB, built on user keys, never rejects a present key
         /\ Ev.open_rc = 0
RealSeeks == \A i \in 1..Len(Ev.seeks) : Ev.seeks[i][2] = ModelSeek(Ev, Ev.seeks[i][1])
\* a point lookup lands where the block seek lands; the filter may only suppress a key that is not present
RealGets == \A i \in 1..Len(Ev.gets) :
              LET pos == Ev.gets[i][1]  tuk == Ev.gets[i][2]  r == Ev.gets[i][3]  m == ModelGet(Ev, pos) IN
              \* euk[e] identifies the user key of entry e, tuk the target's: a filter never rejects a present key
              IF m # 0 /\ Ev.euk[m] = tuk THEN r = m ELSE (r = m \/ r = 0)
RealScans == Ev.scan.n = Ev.n /\ Ev.scan.fwd_ok = 1 /\ Ev.scan.bwd_ok = 1 /\ Ev.scan.st = 0 /\ Ev.walk_bad = 0
\* a reader configured with a different filter parameter still finds every present key (the table stores its own probe count)
OtherReader == \A i \in 1..Len(Ev.gets2) : Ev.gets2[i][2] = ModelGet(Ev, Ev.gets2[i][1])
TableOk == WellFormed(Ev) /\ SeeksLandRight(Ev) /\ GetsFindPresent(Ev) /\ Flags /\ RealSeeks /\ RealGets /\ RealScans /\ OtherReader
Next == l <= Len(T) /\ Ev.e = "table" /\ (TableOk = TRUE) /\ l' = l + 1
Spec == Init /\ [][Next]_l
=============================================================================
