SPECIFICATION TSpec
CONSTANTS
  B = 65536
INVARIANTS Conserve BufBound FlushedAll SyncedAll SyncedMono ReqBound
CHECK_DEADLOCK FALSE
