-------------------------------- MODULE Iter --------------------------------
(* The two iterators that turn sorted runs of internal entries into the user-visible ordered view, transcribed    *)
(* statement by statement from lcdb:                                                                               *)
(*   merging iterator   src/table/merger.c    (children, current, direction; find_smallest / find_largest;        *)
(*                                             first, last, seek, next, prev with the direction switch)            *)
(*   database iterator  src/db_iter.c         (direction, valid, saved_key, saved_value; find_next_user_entry,     *)
(*                                             find_prev_user_entry; first, last, seek, next, prev)                *)
(*   the public wrappers src/table/iterator.c (seek_ge, seek_gt, seek_le, seek_lt)                                 *)
(* and an oracle: the sorted map of the newest entry <= snapshot of every user key, deletions removed, with a     *)
(* plain cursor.  TLC checks, for EVERY distribution of up to MaxSeq entries over NCh children, every snapshot    *)
(* and every reachable iterator state, that each positioning call leaves the iterator exactly where the oracle's  *)
(* cursor is (C07: ordered, complete, no hidden entry, both directions, direction switches anywhere).             *)
(* Every transition TLC generates is also printed as a test vector (layout, snapshot, call sequence, expected     *)
(* results); harness/drv/iter.c builds the same children from real memtables, stacks the real merging and         *)
(* database iterators on them and must produce the same results: one implementation test per transition.          *)
EXTENDS Naturals, Sequences, FiniteSets, TLC

CONSTANTS NKeys,        \* user keys 1..NKeys
          MaxSeq,       \* sequence numbers 1..MaxSeq, each used by at most one entry
          NCh,          \* children of the merging iterator
          Snaps,        \* snapshot sequences to consider
          MaxOps,       \* length of the call sequences
          Incremental,  \* TRUE: the layout is built entry by entry by Build steps (random walks); FALSE: every layout is an initial state
          Emit          \* 0: nothing; 1: print every generated transition as a test vector; 2: print complete call sequences only

Ch == 1..NCh
Keys == 1..NKeys
VARIABLES child,        \* child[c] : sequence of entries [k, s, t] in internal order (k ascending, s descending)
          snap,         \* the iterator's snapshot sequence
          pos, cur, mdir,                 \* merging iterator: position per child, current child (0 = none), direction
          ddir, dvalid, skey, sval,       \* database iterator: direction, valid, saved_key (0 = empty), saved_value
          opos,                           \* oracle: cursor into Vis (0 = not valid)
          hist,                           \* the calls so far with their results (not part of the VIEW)
          bs                              \* next sequence number to place while the layout is being built
vars == <<child, snap, pos, cur, mdir, ddir, dvalid, skey, sval, opos, hist, bs>>
view == <<child, snap, pos, cur, mdir, ddir, dvalid, skey, sval, opos, bs>>

\* ---------------- internal order --------------------------------------------------------------------------
Less(a, b) == a.k < b.k \/ (a.k = b.k /\ a.s > b.s)
Min(S) == CHOOSE x \in S : \A y \in S : x <= y
Max(S) == CHOOSE x \in S : \A y \in S : x >= y
LenC(c) == Len(child[c])

\* ---------------- merging iterator (merger.c), as functions over m = [pos, cur, dir] ------------------------
CValid(m, c) == m.pos[c] \in 1..LenC(c)
E(m, c) == child[c][m.pos[c]]
MValid(m) == m.cur # 0
MKey(m) == E(m, m.cur)
\* find_smallest: scans children 1..n, replaces only on strictly smaller -> the lowest index among equals
FindSmallest(m) == LET V == {c \in Ch : CValid(m, c)} IN
  [m EXCEPT !.cur = IF V = {} THEN 0
                    ELSE CHOOSE c \in V : \A d \in V \ {c} : Less(E(m, c), E(m, d)) \/ (~Less(E(m, d), E(m, c)) /\ c < d)]
\* find_largest: scans children n..1, replaces only on strictly larger -> the highest index among equals
FindLargest(m) == LET V == {c \in Ch : CValid(m, c)} IN
  [m EXCEPT !.cur = IF V = {} THEN 0
                    ELSE CHOOSE c \in V : \A d \in V \ {c} : Less(E(m, d), E(m, c)) \/ (~Less(E(m, c), E(m, d)) /\ c > d)]
\* child seek: first entry >= target; LenC+1 = not valid
CSeek(c, t) == LET S == {i \in 1..LenC(c) : ~Less(child[c][i], t)} IN IF S = {} THEN LenC(c) + 1 ELSE Min(S)
MFirst(m) == [FindSmallest([m EXCEPT !.pos = [c \in Ch |-> 1]]) EXCEPT !.dir = "f"]
MLast(m) == [FindLargest([m EXCEPT !.pos = [c \in Ch |-> LenC(c)]]) EXCEPT !.dir = "r"]
MSeek(m, t) == [FindSmallest([m EXCEPT !.pos = [c \in Ch |-> CSeek(c, t)]]) EXCEPT !.dir = "f"]
MNext(m) ==
  LET key == MKey(m)
      m1 == IF m.dir # "f"
            THEN [m EXCEPT !.dir = "f",
                           !.pos = [c \in Ch |-> IF c = m.cur THEN m.pos[c]
                                                 ELSE LET p == CSeek(c, key) IN
                                                      IF p \in 1..LenC(c) /\ ~Less(key, child[c][p]) /\ ~Less(child[c][p], key)
                                                      THEN p + 1 ELSE p]]
            ELSE m
  IN FindSmallest([m1 EXCEPT !.pos[m.cur] = m1.pos[m.cur] + 1])
MPrev(m) ==
  LET key == MKey(m)
      m1 == IF m.dir # "r"
            THEN [m EXCEPT !.dir = "r",
                           !.pos = [c \in Ch |-> IF c = m.cur THEN m.pos[c]
                                                 ELSE LET p == CSeek(c, key) IN
                                                      IF p \in 1..LenC(c) THEN p - 1 ELSE LenC(c)]]
            ELSE m
  IN FindLargest([m1 EXCEPT !.pos[m.cur] = m1.pos[m.cur] - 1])

\* ---------------- database iterator (db_iter.c), d = [m, dir, valid, skey, sval] ----------------------------
Visible(e) == e.s <= snap
RECURSIVE FNUE(_, _, _)
\* find_next_user_entry: m is valid on entry
FNUE(m, skipping, skip) ==
  LET e == MKey(m) IN
  IF Visible(e) /\ e.t = 1 /\ ~(skipping /\ e.k <= skip)
  THEN [m |-> m, dir |-> "f", valid |-> TRUE, skey |-> 0, sval |-> 0]
  ELSE LET del == Visible(e) /\ e.t = 0
           m2 == MNext(m)
       IN IF MValid(m2) THEN FNUE(m2, skipping \/ del, IF del THEN e.k ELSE skip)
          ELSE [m |-> m2, dir |-> "f", valid |-> FALSE, skey |-> 0, sval |-> 0]
RECURSIVE FPUELoop(_, _, _, _)
FPUELoop(m, vt, sk, sv) ==
  IF ~MValid(m) THEN [m |-> m, vt |-> vt, sk |-> sk, sv |-> sv]
  ELSE LET e == MKey(m) IN
       IF Visible(e)
       THEN IF vt # 0 /\ e.k < sk THEN [m |-> m, vt |-> vt, sk |-> sk, sv |-> sv]
            ELSE FPUELoop(MPrev(m), e.t, IF e.t = 0 THEN 0 ELSE e.k, IF e.t = 0 THEN 0 ELSE e.s)
       ELSE FPUELoop(MPrev(m), vt, sk, sv)
\* find_prev_user_entry (direction is reverse on entry)
FPUE(m, sk, sv) ==
  LET r == FPUELoop(m, 0, sk, sv) IN
  IF r.vt = 0 THEN [m |-> r.m, dir |-> "f", valid |-> FALSE, skey |-> 0, sval |-> 0]
  ELSE [m |-> r.m, dir |-> "r", valid |-> TRUE, skey |-> r.sk, sval |-> r.sv]
DFirst(d) == LET m2 == MFirst(d.m) IN
  IF MValid(m2) THEN FNUE(m2, FALSE, 0)
  ELSE [m |-> m2, dir |-> "f", valid |-> FALSE, skey |-> d.skey, sval |-> 0]
DLast(d) == FPUE(MLast(d.m), d.skey, 0)
DSeek(d, tk) == LET m2 == MSeek(d.m, [k |-> tk, s |-> snap, t |-> 1]) IN
  IF MValid(m2) THEN FNUE(m2, FALSE, 0)
  ELSE [m |-> m2, dir |-> "f", valid |-> FALSE, skey |-> 0, sval |-> 0]
DNext(d) ==
  IF d.dir = "r"
  THEN LET m2 == IF ~MValid(d.m) THEN MFirst(d.m) ELSE MNext(d.m) IN
       IF ~MValid(m2) THEN [m |-> m2, dir |-> "f", valid |-> FALSE, skey |-> 0, sval |-> d.sval]
       ELSE FNUE(m2, TRUE, d.skey)
  ELSE LET sk == MKey(d.m).k
           m2 == MNext(d.m) IN
       IF ~MValid(m2) THEN [m |-> m2, dir |-> "f", valid |-> FALSE, skey |-> 0, sval |-> d.sval]
       ELSE FNUE(m2, TRUE, sk)
RECURSIVE BackToPrevKey(_, _)
BackToPrevKey(m, sk) == LET m2 == MPrev(m) IN
  IF ~MValid(m2) THEN m2 ELSE IF MKey(m2).k < sk THEN m2 ELSE BackToPrevKey(m2, sk)
DPrev(d) ==
  IF d.dir = "f"
  THEN LET sk == MKey(d.m).k
           m2 == BackToPrevKey(d.m, sk) IN
       IF ~MValid(m2) THEN [m |-> m2, dir |-> "f", valid |-> FALSE, skey |-> 0, sval |-> 0]
       ELSE FPUE(m2, sk, d.sval)
  ELSE FPUE(d.m, d.skey, d.sval)
\* what the caller sees
DKey(d) == IF d.dir = "f" THEN MKey(d.m).k ELSE d.skey
DVal(d) == IF d.dir = "f" THEN MKey(d.m).s ELSE d.sval
\* public wrappers (iterator.c)
SeekGT(d, tk) == LET d1 == DSeek(d, tk) IN IF d1.valid /\ DKey(d1) = tk THEN DNext(d1) ELSE d1
SeekLE(d, tk) == LET d1 == DSeek(d, tk) IN IF d1.valid THEN (IF DKey(d1) > tk THEN DPrev(d1) ELSE d1) ELSE DLast(d1)
SeekLT(d, tk) == LET d1 == DSeek(d, tk) IN IF d1.valid THEN DPrev(d1) ELSE DLast(d1)

\* ---------------- oracle ------------------------------------------------------------------------------------
All == UNION {{child[c][i] : i \in 1..LenC(c)} : c \in Ch}
Newest(k) == LET S == {e \in All : e.k = k /\ e.s <= snap} IN
             IF S = {} THEN [k |-> k, s |-> 0, t |-> 0] ELSE (CHOOSE e \in S : \A f \in S : f.s <= e.s)
Live == {k \in Keys : Newest(k).t = 1}
OFirst == IF Live = {} THEN 0 ELSE Min(Live)
OLast == IF Live = {} THEN 0 ELSE Max(Live)
OGE(tk) == LET S == {k \in Live : k >= tk} IN IF S = {} THEN 0 ELSE Min(S)
OGT(tk) == LET S == {k \in Live : k > tk} IN IF S = {} THEN 0 ELSE Min(S)
OLE(tk) == LET S == {k \in Live : k <= tk} IN IF S = {} THEN 0 ELSE Max(S)
OLT(tk) == LET S == {k \in Live : k < tk} IN IF S = {} THEN 0 ELSE Max(S)

\* ---------------- behaviours ----------------------------------------------------------------------------------
\* every way of giving each sequence number to nobody or to one entry (key, kind) of one child
Slot == {<<0, 0, 0>>} \cup {<<k, t, c>> : k \in Keys, t \in {0, 1}, c \in Ch}
SortedRun(S) == LET RECURSIVE Build(_)
                    Build(R) == IF R = {} THEN <<>>
                                ELSE LET e == CHOOSE x \in R : \A y \in R \ {x} : Less(x, y) IN <<e>> \o Build(R \ {e})
                IN Build(S)
Layout(f) == [c \in Ch |-> SortedRun({[k |-> f[s][1], s |-> s, t |-> f[s][2]] : s \in {x \in DOMAIN f : f[x][3] = c}})]
Init == /\ IF Incremental THEN child = [c \in Ch |-> <<>>] /\ bs = 1
                          ELSE (\E f \in [1..MaxSeq -> Slot] : child = Layout(f)) /\ bs = MaxSeq + 1
        /\ snap \in Snaps
        /\ pos = [c \in Ch |-> 0] /\ cur = 0 /\ mdir = "f"
        /\ ddir = "f" /\ dvalid = FALSE /\ skey = 0 /\ sval = 0 /\ opos = 0 /\ hist = <<>>
\* one more entry (or none) for sequence number bs
Build == /\ bs <= MaxSeq
         /\ \E sl \in Slot :
              child' = IF sl[3] = 0 THEN child
                       ELSE [child EXCEPT ![sl[3]] = SortedRun({@[i] : i \in 1..Len(@)} \cup {[k |-> sl[1], s |-> bs, t |-> sl[2]]})]
         /\ bs' = bs + 1
         /\ UNCHANGED <<snap, pos, cur, mdir, ddir, dvalid, skey, sval, opos, hist>>
D == [m |-> [pos |-> pos, cur |-> cur, dir |-> mdir], dir |-> ddir, valid |-> dvalid, skey |-> skey, sval |-> sval]
Line(h) == <<"vec", snap, [c \in Ch |-> [i \in 1..LenC(c) |-> <<child[c][i].k, child[c][i].s, child[c][i].t>>]], h>>
Step(op, arg, d, o) ==
  /\ Len(hist) < MaxOps /\ bs > MaxSeq
  /\ pos' = d.m.pos /\ cur' = d.m.cur /\ mdir' = d.m.dir
  /\ ddir' = d.dir /\ dvalid' = d.valid /\ skey' = d.skey /\ sval' = d.sval
  /\ opos' = o
  /\ hist' = Append(hist, <<op, arg, IF d.valid THEN 1 ELSE 0, IF d.valid THEN DKey(d) ELSE 0, IF d.valid THEN DVal(d) ELSE 0>>)
  /\ ((Emit = 1 \/ (Emit = 2 /\ Len(hist') = MaxOps)) => PrintT(Line(hist')))
  /\ UNCHANGED <<child, snap, bs>>
Targets == 0..(NKeys + 1)
Next == \/ Build
        \/ Step("first", 0, DFirst(D), OFirst)
        \/ Step("last", 0, DLast(D), OLast)
        \/ \E t \in Targets : /\ (Incremental => RandomElement(1..6) = 1)     \* random walks: mostly next / prev
                              /\ \/ Step("seek", t, DSeek(D, t), OGE(t))
                                 \/ Step("seek_gt", t, SeekGT(D, t), OGT(t))
                                 \/ Step("seek_le", t, SeekLE(D, t), OLE(t))
                                 \/ Step("seek_lt", t, SeekLT(D, t), OLT(t))
        \/ (dvalid /\ Step("next", 0, DNext(D), OGT(opos)))
        \/ (dvalid /\ Step("prev", 0, DPrev(D), OLT(opos)))
Spec == Init /\ [][Next]_vars

\* ---------------- C07 -----------------------------------------------------------------------------------------
\* the iterator is exactly where the oracle's cursor is, and shows that key's newest visible value
Agree == /\ dvalid = (opos # 0)
         /\ dvalid => /\ DKey(D) = opos
                      /\ DVal(D) = Newest(opos).s
\* internal consistency the code relies on (asserts in merger.c / db_iter.c)
ForwardHasCurrent == (dvalid /\ ddir = "f") => cur # 0 /\ pos[cur] \in 1..LenC(cur)
=============================================================================
