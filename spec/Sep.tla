-------------------------------- MODULE Sep --------------------------------
(* Index-key shortening (src/util/comparator.c shortest_separator / short_successor and their internal-key      *)
(* wrappers in src/dbformat.c), transcribed over byte strings, and the contract the table format relies on (C16):  *)
(*   start <= ShortSep(start, limit) < limit   whenever start < limit                                              *)
(*   key <= ShortSucc(key)                                                                                         *)
(* and the same for internal keys (user key ascending, sequence descending), where a shortened user key gets the  *)
(* largest sequence so that it sorts before every real entry of that user key.                                     *)
(* SepMC checks the transcription over every string of a small alphabet (including 0xff); SepTrace checks the      *)
(* contract on what the real functions returned.                                                                   *)
EXTENDS Naturals, Sequences, FiniteSets, TLC

MaxByte == 255
MaxSeqNo == 1000000000    \* stands for kMaxSequenceNumber (2^56 - 1, beyond TLC's integers): larger than any sequence in the vectors

\* bytewise order on sequences of bytes
RECURSIVE LessB(_, _)
LessB(a, b) == IF a = <<>> THEN b # <<>>
               ELSE IF b = <<>> THEN FALSE
               ELSE IF Head(a) # Head(b) THEN Head(a) < Head(b)
               ELSE LessB(Tail(a), Tail(b))
LeqB(a, b) == a = b \/ LessB(a, b)
MinN(x, y) == IF x < y THEN x ELSE y

\* shortest_separator(start, limit)
DiffIndex(a, b) == LET n == MinN(Len(a), Len(b))
                       S == {i \in 1..n : a[i] # b[i]}
                   IN IF S = {} THEN n + 1 ELSE CHOOSE i \in S : \A j \in S : i <= j
ShortSep(start, limit) ==
  LET n == MinN(Len(start), Len(limit))
      d == DiffIndex(start, limit)
  IN IF d > n THEN start                                             \* one is a prefix of the other
     ELSE IF start[d] < MaxByte /\ start[d] + 1 < limit[d]
          THEN [i \in 1..d |-> IF i = d THEN start[d] + 1 ELSE start[i]]
          ELSE start
\* short_successor(key)
ShortSucc(key) ==
  LET S == {i \in 1..Len(key) : key[i] # MaxByte}
  IN IF S = {} THEN key
     ELSE LET i == CHOOSE x \in S : \A y \in S : x <= y
          IN [j \in 1..i |-> IF j = i THEN key[i] + 1 ELSE key[j]]

\* internal keys: [u |-> user key, s |-> sequence]; order: user ascending, sequence descending
LessI(a, b) == LessB(a.u, b.u) \/ (a.u = b.u /\ a.s > b.s)
LeqI(a, b) == a = b \/ LessI(a, b)
ISep(start, limit) ==
  LET t == ShortSep(start.u, limit.u)
  IN IF Len(t) < Len(start.u) /\ LessB(start.u, t) THEN [u |-> t, s |-> MaxSeqNo] ELSE start
ISucc(key) ==
  LET t == ShortSucc(key.u)
  IN IF Len(t) < Len(key.u) /\ LessB(key.u, t) THEN [u |-> t, s |-> MaxSeqNo] ELSE key

\* the contract
SepOk(start, limit, out) == LessB(start, limit) => (LeqB(start, out) /\ LessB(out, limit))
SuccOk(key, out) == LeqB(key, out)
ISepOk(start, limit, out) == LessI(start, limit) => (LeqI(start, out) /\ LessI(out, limit))
ISuccOk(key, out) == LeqI(key, out)
=============================================================================
