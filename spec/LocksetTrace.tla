---------------------------- MODULE LocksetTrace ----------------------------
(* C10 (lock discipline): the Eraser state machine per shared object, driven by access events recorded in real  *)
(* multi-threaded runs.  Each access carries the set of mutexes the thread held (maintained inside               *)
(* ldb_mutex_lock/unlock and around condition waits) plus two ownership pseudo-locks: LEADER (-1, the head       *)
(* writer between WLead and WDone) and BG (-2, the background call).  An object in shared-modified state must    *)
(* have a non-empty candidate lockset: the intersection of the locksets of all accesses since it became shared.  *)
(* A refactoring to different but consistent locking keeps the intersection non-empty and is not an alarm.       *)
EXTENDS Naturals, Integers, Sequences, FiniteSets, TLC, Json, IOUtils
T == ndJsonDeserialize(IOEnv.TRACE)
VARIABLES l, objs
vars == <<l, objs>>
Ev == T[l]
Is(e) == l <= Len(T) /\ Ev.e = e /\ l' = l + 1
Init == l = 1 /\ objs = <<>>
SetOf(s) == {s[j] : j \in 1..Len(s)}
Locks(ev) == SetOf(ev.locks) \cup (IF ev.own % 2 = 1 THEN {-1} ELSE {}) \cup (IF (ev.own \div 2) % 2 = 1 THEN {-2} ELSE {})
Key(ev) == <<ev.obj, ev.inst>>
Step(o, ev) ==
  CASE o.st = "virgin" -> [st |-> "excl", owner |-> ev.t, C |-> Locks(ev)]
    [] o.st = "excl" /\ o.owner = ev.t -> o
    [] o.st = "excl" /\ o.owner # ev.t -> [st |-> IF ev.w = 1 THEN "sharedmod" ELSE "shared", owner |-> 0, C |-> Locks(ev)]
    [] o.st = "shared" -> [st |-> IF ev.w = 1 THEN "sharedmod" ELSE "shared", owner |-> 0, C |-> o.C \cap Locks(ev)]
    [] o.st = "sharedmod" -> [o EXCEPT !.C = o.C \cap Locks(ev)]
Virgin == [st |-> "virgin", owner |-> 0, C |-> {}]
TAcc == /\ Is("Acc")
        /\ LET k == Key(Ev)  o == IF k \in DOMAIN objs THEN objs[k] ELSE Virgin
           IN objs' = (k :> Step(o, Ev)) @@ [x \in DOMAIN objs \ {k} |-> objs[x]]
\* thread join / the close handshake orders everything before it: a new epoch begins
TEpoch == (Is("CloseWaited") \/ Is("Reset") \/ Is("open")) /\ objs' = <<>>
Next == TAcc \/ TEpoch
Spec == Init /\ [][Next]_vars
\* every shared-modified object is consistently protected by at least one lock
LocksetNonEmpty == \A k \in DOMAIN objs : objs[k].st = "sharedmod" => objs[k].C # {}
ViolAt(name) == PrintT(<<"pr", name, l>>)
LocksetInv == LocksetNonEmpty \/ ~ViolAt("LocksetNonEmpty")
=============================================================================
