SPECIFICATION Spec
CONSTANTS
  B = 16
  H = 7
