SPECIFICATION Spec
CONSTANTS
  NKeys = 2
  NL = 3
  MaxMemLevel = 2
  MaxSeq = 4
  MaxFiles = 4
  MaxNextF = 8
  TrackFiles = FALSE
  MaxSnaps = 1
  AllowRepair = FALSE
  UseBoundary = TRUE
  DropTombstoneAlways = FALSE
INVARIANT ReadLatest
INVARIANT LevelsWellFormed
INVARIANT Recency
INVARIANT NoLiveFileMissing
INVARIANT EntriesAreWrites
CONSTRAINT Bound
CHECK_DEADLOCK FALSE
