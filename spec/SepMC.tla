------------------------------- MODULE SepMC -------------------------------
(* Sep.tla over every byte string up to MaxLen of a small alphabet that contains 0, neighbours and 0xff.          *)
EXTENDS Sep
CONSTANTS Alphabet, MaxLen, Seqs
Strs == UNION {[1..n -> Alphabet] : n \in 0..MaxLen}
IKeys == {[u |-> u, s |-> s] : u \in Strs, s \in Seqs}
ASSUME \A a \in Strs : \A b \in Strs : SepOk(a, b, ShortSep(a, b)) /\ Len(ShortSep(a, b)) <= Len(a)
ASSUME \A a \in Strs : SuccOk(a, ShortSucc(a)) /\ Len(ShortSucc(a)) <= Len(a)
ASSUME \A a \in IKeys : \A b \in IKeys : ISepOk(a, b, ISep(a, b))
ASSUME \A a \in IKeys : ISuccOk(a, ISucc(a))
\* a separator never crosses into the next block: every key between start and limit stays on its side
ASSUME \A a \in Strs : \A b \in Strs : LessB(a, b) => \A x \in Strs : (LeqB(x, a) => LeqB(x, ShortSep(a, b))) /\ (LeqB(b, x) => LessB(ShortSep(a, b), x))
VARIABLE x
Init == x = 0
Next == UNCHANGED x
Spec == Init /\ [][Next]_x
=============================================================================
