SPECIFICATION Spec
CHECK_DEADLOCK FALSE
INVARIANT ModelSyncedSurvive
INVARIANT RecSynced
INVARIANT RecNothingElse
INVARIANT RecFollow
