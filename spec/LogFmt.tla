------------------------------- MODULE LogFmt -------------------------------
(* The write-ahead-log framing of lcdb (log_writer.c / log_reader.c / log_format.h), parametric in the   *)
(* block size B and the header size H (32768 / 7 in the real format).                                   *)
(*   Layout(off, lens)   - the physical records the writer must emit for logical records of the given     *)
(*                         lengths appended at block offset off: trailer padding when fewer than H bytes *)
(*                         remain, FULL / FIRST / MIDDLE* / LAST fragmentation.                           *)
(*   ReadCut(P, cut)     - what the reader must return from a file cut at byte `cut`: exactly the        *)
(*                         logical records wholly before the cut, silently.                               *)
(*   ReadDamaged(P, i)   - what the reader must return when physical record i fails its checksum: the    *)
(*                         rest of that block is dropped (and reported); records with no fragment in the *)
(*                         dropped region survive; reading resumes at the next block.                     *)
(* Design-level facts are checked over a complete small scope (ASSUME, evaluated by TLC); the same        *)
(* operators are the oracle of LogFmtTrace, which validates what the real writer / reader did.            *)
EXTENDS Naturals, Sequences, FiniteSets, TLC

CONSTANTS B, H
FULL == 1  FIRST == 2  MIDDLE == 3  LAST == 4

\* one logical record of length `left`, starting at block offset off; rec = index of the logical record;
\* pos = absolute byte position (the file begins at block offset 0 of its first block)
RECURSIVE Emit(_, _, _, _, _, _)
Emit(off, pos, left, begin, rec, acc) ==
  LET leftover == B - off
      pad == IF leftover < H THEN leftover ELSE 0
      off1 == IF leftover < H THEN 0 ELSE off
      pos1 == pos + pad
      avail == B - off1 - H
      flen == IF left < avail THEN left ELSE avail
      end == (left = flen)
      type == IF begin /\ end THEN FULL ELSE IF begin THEN FIRST ELSE IF end THEN LAST ELSE MIDDLE
      acc1 == Append(acc, [pad |-> pad, type |-> type, len |-> flen, rec |-> rec, start |-> pos1, stop |-> pos1 + H + flen])
      off2 == off1 + H + flen
  IN IF end THEN [off |-> off2, pos |-> pos1 + H + flen, recs |-> acc1]
     ELSE Emit(off2, pos1 + H + flen, left - flen, FALSE, rec, acc1)
RECURSIVE LayoutFrom(_, _, _, _, _)
LayoutFrom(off, pos, lens, rec, acc) ==
  IF lens = <<>> THEN acc
  ELSE LET r == Emit(off, pos, Head(lens), TRUE, rec, acc) IN LayoutFrom(r.off, r.pos, Tail(lens), rec + 1, r.recs)
\* the file starts with `off` bytes of earlier content (a reused log); positions are absolute
Layout(off, lens) == LayoutFrom(off % B, off, lens, 1, <<>>)
EndOf(P, off) == IF P = <<>> THEN off ELSE P[Len(P)].stop

\* ---- design-level well-formedness of any layout ----
RECURSIVE WF(_, _, _)
WF(P, i, inrec) ==
  IF i > Len(P) THEN ~inrec
  ELSE LET r == P[i] IN
       /\ r.pad < H                                             \* a trailer is shorter than a header
       /\ (r.pad > 0 => (r.start % B) = 0)                      \* after a trailer the next record starts a block
       /\ (r.start % B) + H + r.len <= B                        \* never split a header, never cross a block
       /\ (r.start % B) + H <= B
       /\ (inrec => r.type \in {MIDDLE, LAST}) /\ (~inrec => r.type \in {FULL, FIRST})
       /\ (i > 1 => r.start = P[i - 1].stop + r.pad)
       /\ WF(P, i + 1, r.type \in {FIRST, MIDDLE})
WellFormed(P) == WF(P, 1, FALSE)
LensOf(P, n) == [j \in 1..n |-> LET fr == {i \in 1..Len(P) : P[i].rec = j} IN
                   LET RECURSIVE Sum(_) Sum(S) == IF S = {} THEN 0 ELSE LET x == CHOOSE y \in S : TRUE IN P[x].len + Sum(S \ {x}) IN Sum(fr)]
RoundTrip(off, lens) == LensOf(Layout(off, lens), Len(lens)) = lens

\* ---- the reader on a truncated file: records wholly before the cut, no error ----
Complete(P, j, cut) == \A i \in 1..Len(P) : P[i].rec = j => P[i].stop <= cut
NRecs(P) == IF P = <<>> THEN 0 ELSE P[Len(P)].rec
\* records are returned in order; the first incomplete one ends the log
RECURSIVE PrefixCount(_, _, _)
PrefixCount(P, j, cut) == IF j > NRecs(P) \/ ~Complete(P, j, cut) THEN j - 1 ELSE PrefixCount(P, j + 1, cut)
ReadCut(P, cut) == PrefixCount(P, 1, cut)

\* ---- the reader when physical record i fails its checksum ----
BlockOf(pos) == pos \div B
\* everything from the damaged record's start to the end of its block is dropped
Dropped(P, i, x) == BlockOf(P[x].start) = BlockOf(P[i].start) /\ P[x].start >= P[i].start
Survives(P, i, j) == \A x \in 1..Len(P) : P[x].rec = j => ~Dropped(P, i, x)
SurvivorsDamaged(P, i) == {j \in 1..NRecs(P) : Survives(P, i, j)}
\* reading resumes at the next block: every record that starts in a later block survives
ResumesNextBlock(P, i) == \A j \in 1..NRecs(P) :
   (\A x \in 1..Len(P) : P[x].rec = j => BlockOf(P[x].start) > BlockOf(P[i].start)) => j \in SurvivorsDamaged(P, i)
=============================================================================
