SPECIFICATION Spec
CONSTANTS
  B = 32
  H = 7
CHECK_DEADLOCK FALSE
