-------------------------------- MODULE Lsm --------------------------------
(* The level-structured engine of lcdb (db_impl.c, version_set.c), sequential view.                     *)
(*                                                                                                      *)
(* State is abstract: a key is a rank, a value is the id of the put that wrote it, a table file is a   *)
(* number plus a set of internal entries [k, s, d, v] (user key, sequence, deletion?, value id).        *)
(* Reads are modelled the way the code reads (ldb_get / ldb_version_get): memtable, immutable           *)
(* memtable, level-0 files newest file number first restricted to files whose user-key range covers    *)
(* the key, then per level the one file found by binary search - and the search STOPS AT THE FIRST HIT. *)
(* That is what makes a misplaced file or a wrongly dropped entry visible as a wrong answer here.       *)
(*                                                                                                      *)
(* Two families of actions:                                                                             *)
(*   - primitive installs (InstallFlush, InstallCompaction, InstallMove, ...) whose only preconditions  *)
(*     are structural; the invariants decide whether the resulting state is safe.  The trace            *)
(*     specification LsmTrace drives these with what the real library did.                              *)
(*   - code-shaped choices (PickLevel, Close0, AddBoundary, the drop rules of ldb_do_compaction_work)   *)
(*     composed with the primitives in Next, for exhaustive model checking of the design.               *)
EXTENDS Naturals, FiniteSets, Sequences, TLC

CONSTANTS NKeys,          \* user keys are 0..NKeys-1
          NL,             \* number of levels
          MaxMemLevel,    \* LDB_MAX_MEM_COMPACT_LEVEL (2 in lcdb)
          MaxSeq, MaxFiles, MaxSnaps,   \* model-checking bounds
          MaxNextF, TrackFiles,         \* bound on file numbers; TRUE enables pins / obsolete-file removal (C13)
          AllowRepair,    \* TRUE adds ldb_repair: every table goes to level 0 (C19)
          UseBoundary,    \* FALSE switches add_boundary_inputs off (seeded design error, must be caught)
          DropTombstoneAlways           \* TRUE drops tombstones even when deeper levels hold the key (seeded)

VARIABLES seq,        \* last published sequence number
          mem,        \* active memtable: set of entries
          imm,        \* immutable memtable being flushed
          hasImm,
          lv,         \* level -> set of files; file = [n |-> number, e |-> set of entries]
          nextf,      \* next file number
          snaps,      \* sequence numbers of live snapshots
          hist,       \* ghost: sequence of writes [k, d, v]; position = sequence number  (the Kv truth)
          pins,       \* set of pinned versions (each a set of file numbers) held by iterators / reads
          disk        \* table numbers present in the directory
vars == <<seq, mem, imm, hasImm, lv, nextf, snaps, hist, pins, disk>>

Keys == 0..(NKeys - 1)
Levels == 0..(NL - 1)
None == [k |-> 0, s |-> 0, d |-> TRUE, v |-> 0]

\* ---- internal key order: user key ascending, sequence descending ---------------------------
IKLess(a, b) == a.k < b.k \/ (a.k = b.k /\ a.s > b.s)
IKLeq(a, b) == a = b \/ IKLess(a, b)
Smallest(f) == CHOOSE a \in f.e : \A b \in f.e : IKLeq(a, b)
Largest(f) == CHOOSE a \in f.e : \A b \in f.e : IKLeq(b, a)
InURange(f, k) == Smallest(f).k <= k /\ k <= Largest(f).k
UOverlap(f, lo, hi) == ~(Largest(f).k < lo \/ Smallest(f).k > hi)
NewestIn(S, k, s) == LET c == {e \in S : e.k = k /\ e.s <= s}
                     IN IF c = {} THEN None ELSE CHOOSE e \in c : \A x \in c : x.s <= e.s
Files == UNION {lv[l] : l \in Levels}
FileNums == {f.n : f \in Files}
EntsOf(S) == UNION {f.e : f \in S}
MinOf(S) == CHOOSE x \in S : \A y \in S : x <= y
MaxOf(S) == CHOOSE x \in S : \A y \in S : x >= y

\* ---- the lookup, as the code performs it -----------------------------------------------------
RECURSIVE GetLevels(_, _, _)
GetLevels(l, k, s) ==
  IF l >= NL THEN None
  ELSE LET ik == [k |-> k, s |-> s, d |-> FALSE, v |-> 0]
           cand == {f \in lv[l] : ~IKLess(Largest(f), ik)}       \* find_file: first file with largest >= ikey
       IN IF cand = {} THEN GetLevels(l + 1, k, s)
          ELSE LET f == CHOOSE x \in cand : \A y \in cand : IKLeq(Smallest(x), Smallest(y))
                   hit == IF k >= Smallest(f).k THEN NewestIn(f.e, k, s) ELSE None
               IN IF hit # None THEN hit ELSE GetLevels(l + 1, k, s)
Get(k, s) ==
  LET m == NewestIn(mem, k, s) IN
  IF m # None THEN m
  ELSE LET i == IF hasImm THEN NewestIn(imm, k, s) ELSE None IN
       IF i # None THEN i
       ELSE LET h0 == {f \in lv[0] : InURange(f, k) /\ NewestIn(f.e, k, s) # None}
            IN IF h0 # {} THEN NewestIn((CHOOSE f \in h0 : \A g \in h0 : g.n <= f.n).e, k, s)
               ELSE GetLevels(1, k, s)

\* ---- ghost truth (module Kv) -----------------------------------------------------------------
Val(k, s) == LET c == {i \in 1..Len(hist) : i <= s /\ hist[i].k = k}
             IN IF c = {} THEN None
                ELSE LET i == MaxOf(c) IN [k |-> k, s |-> i, d |-> hist[i].d, v |-> hist[i].v]
\* a lookup result and the truth agree when both say "absent" (no entry or a tombstone) or name the same write
Same(a, b) == \/ ((a = None \/ a.d) /\ (b = None \/ b.d))
              \/ (a # None /\ b # None /\ ~a.d /\ ~b.d /\ a.s = b.s /\ a.v = b.v)
ReadPoints == {seq} \cup snaps

\* ================= invariants =================================================================
\* C01 / C06: every lookup at the current sequence and at every live snapshot returns the latest write
ReadLatest == \A k \in Keys : \A s \in ReadPoints : Same(Get(k, s), Val(k, s))
\* C19: the known defect D1 has this shape: level-0 lookups go by file number, and after a repair the numbering need
\* not follow data age - a higher-numbered level-0 table holds an OLDER version of the key than a lower-numbered one
D1Shape(k) == \E f, g \in lv[0] : f.n > g.n /\ \E a \in f.e, b \in g.e : a.k = k /\ b.k = k /\ a.s < b.s
\* every wrong point lookup has exactly that shape (in normal operation Recency excludes it, so this is ReadLatest)
ReadLatestOrD1 == \A k \in Keys : \A s \in ReadPoints : Same(Get(k, s), Val(k, s)) \/ D1Shape(k)
\* iterators merge all sources by sequence number, so they see the newest version whatever the layout
AllEnts == mem \cup (IF hasImm THEN imm ELSE {}) \cup EntsOf(Files)
IterLatest == \A k \in Keys : \A s \in ReadPoints : Same(NewestIn(AllEnts, k, s), Val(k, s))
\* C14: above level 0 files are disjoint in internal-key order; every file is a non-empty duplicate-free run
Disjoint == \A l \in 1..(NL - 1) : \A f, g \in lv[l] :
              f # g => (IKLess(Largest(f), Smallest(g)) \/ IKLess(Largest(g), Smallest(f)))
FilesSane == \A f \in Files : f.e # {} /\ \A a, b \in f.e : (a.k = b.k /\ a.s = b.s) => a = b
UniqueNums == \A f, g \in Files : f.n = g.n => f = g
LevelsWellFormed == Disjoint /\ FilesSane /\ UniqueNums
\* C14: for any user key, versions met earlier in search order are strictly newer than those met later
\*   search order: mem, imm, level-0 files by descending number, level 1, 2, ...
SeqsOf(S, k) == {e.s : e \in {x \in S : x.k = k}}
Newer(A, B) == \A k \in Keys : LET a == SeqsOf(A, k)  b == SeqsOf(B, k)
                               IN (a # {} /\ b # {}) => MinOf(a) > MaxOf(b)
ImmEnts == IF hasImm THEN imm ELSE {}
Recency ==
  /\ \A f, g \in lv[0] : (f.n > g.n) => Newer(f.e, g.e)          \* level 0: a higher number means strictly newer data
  /\ \A l1, l2 \in Levels : l1 < l2 => Newer(EntsOf(lv[l1]), EntsOf(lv[l2]))
  /\ Newer(mem, ImmEnts \cup EntsOf(Files))                       \* memtables above everything
  /\ Newer(ImmEnts, EntsOf(Files))
\* C13: nothing reachable is missing from the directory
Needed == FileNums \cup UNION pins
NoLiveFileMissing == Needed \subseteq disk
\* every entry anywhere is a write that happened, with its value
EntriesAreWrites == \A e \in mem \cup (IF hasImm THEN imm ELSE {}) \cup EntsOf(Files) :
                      e.s \in 1..Len(hist) /\ hist[e.s].k = e.k /\ hist[e.s].d = e.d /\ hist[e.s].v = e.v

\* ================= primitive installs (structural preconditions only) =========================
Write(k, d, v) ==
  /\ seq' = seq + 1
  /\ mem' = mem \cup {[k |-> k, s |-> seq + 1, d |-> d, v |-> v]}
  /\ hist' = Append(hist, [k |-> k, d |-> d, v |-> v])
  /\ UNCHANGED <<imm, hasImm, lv, nextf, snaps, pins, disk>>
SwitchMem ==
  /\ ~hasImm
  /\ imm' = mem /\ hasImm' = TRUE /\ mem' = {}
  /\ UNCHANGED <<seq, lv, nextf, snaps, hist, pins, disk>>
\* the flushed table holds exactly the immutable memtable
InstallFlush(level, f) ==
  /\ hasImm /\ f.e = imm /\ f.e # {} /\ level \in Levels /\ f.n \notin FileNums
  /\ lv' = [lv EXCEPT ![level] = @ \cup {f}]
  /\ hasImm' = FALSE /\ imm' = {}
  /\ disk' = disk \cup {f.n}
  /\ UNCHANGED <<seq, mem, snaps, hist, pins>>
DropEmptyImm == hasImm /\ imm = {} /\ hasImm' = FALSE /\ UNCHANGED <<seq, mem, imm, lv, nextf, snaps, hist, pins, disk>>
\* a compaction replaces in0 (at level) and in1 (at level+1) by outs (at level+1); outs only re-arrange input entries
InstallCompaction(level, in0, in1, outs) ==
  /\ level + 1 < NL /\ in0 # {} /\ in0 \subseteq lv[level] /\ in1 \subseteq lv[level + 1]
  /\ EntsOf(outs) \subseteq EntsOf(in0 \cup in1)
  /\ \A f \in outs : f.n \notin FileNums /\ f.e # {}
  /\ \A f, g \in outs : f.n = g.n => f = g
  /\ lv' = [lv EXCEPT ![level] = @ \ in0, ![level + 1] = (@ \ in1) \cup outs]
  /\ disk' = disk \cup {f.n : f \in outs}
  /\ UNCHANGED <<seq, mem, imm, hasImm, snaps, hist, pins>>
InstallMove(level, f) ==
  /\ level + 1 < NL /\ f \in lv[level]
  /\ lv' = [lv EXCEPT ![level] = @ \ {f}, ![level + 1] = @ \cup {f}]
  /\ UNCHANGED <<seq, mem, imm, hasImm, nextf, snaps, hist, pins, disk>>
RemoveFiles(nums) ==
  /\ disk' = disk \ nums
  /\ UNCHANGED <<seq, mem, imm, hasImm, lv, nextf, snaps, hist, pins>>
Pin == pins' = pins \cup {FileNums} /\ UNCHANGED <<seq, mem, imm, hasImm, lv, nextf, snaps, hist, disk>>
Unpin(p) == p \in pins /\ pins' = pins \ {p} /\ UNCHANGED <<seq, mem, imm, hasImm, lv, nextf, snaps, hist, disk>>

\* ================= code-shaped choices ========================================================
OverlapLevel(l, lo, hi) == \E f \in lv[l] : UOverlap(f, lo, hi)
\* ldb_version_pick_level_for_memtable_output without the grandparent-bytes limit (which only stops earlier)
RECURSIVE Pick(_, _, _)
Pick(level, lo, hi) == IF level < MaxMemLevel /\ level + 1 < NL /\ ~OverlapLevel(level + 1, lo, hi)
                       THEN Pick(level + 1, lo, hi) ELSE level
PickLevel(f) == LET lo == Smallest(f).k  hi == Largest(f).k
                IN IF OverlapLevel(0, lo, hi) THEN 0 ELSE Pick(0, lo, hi)
\* every level the code may legally choose: any level on the way to PickLevel (the byte limit can stop early)
FlushLevels(f) == 0..PickLevel(f)
\* get_overlapping_inputs at level 0: closure under user-range overlap
RECURSIVE Close0(_)
Close0(S) == LET lo == MinOf({Smallest(f).k : f \in S})
                 hi == MaxOf({Largest(f).k : f \in S})
                 T == {f \in lv[0] : UOverlap(f, lo, hi)}
             IN IF T = S THEN S ELSE Close0(T)
\* add_boundary_inputs: pull in the next file of the level whose smallest user key equals the largest of the set
RECURSIVE AddBoundary(_, _)
AddBoundary(levelFiles, S) ==
  IF S = {} \/ ~UseBoundary THEN S
  ELSE LET lg == CHOOSE a \in {Largest(f) : f \in S} : \A b \in {Largest(f) : f \in S} : IKLeq(b, a)
           bs == {f \in levelFiles \ S : IKLess(lg, Smallest(f)) /\ Smallest(f).k = lg.k}
       IN IF bs = {} THEN S
          ELSE LET b == CHOOSE x \in bs : \A y \in bs : IKLeq(Smallest(x), Smallest(y))
               IN AddBoundary(levelFiles, S \cup {b})
MinSnap == IF snaps = {} THEN seq ELSE MinOf(snaps)
BaseLevelFor(l, k) == \A j \in (l + 2)..(NL - 1) : \A f \in lv[j] : ~InURange(f, k)
\* the entries that survive ldb_do_compaction_work's drop rules (A) and (B)
Survivors(level, ents, ss) ==
  LET newer(e) == {x \in ents : x.k = e.k /\ x.s > e.s}
      prev(e) == CHOOSE x \in newer(e) : \A y \in newer(e) : x.s <= y.s
      dropA(e) == newer(e) # {} /\ prev(e).s <= ss
      dropB(e) == e.d /\ e.s <= ss /\ (DropTombstoneAlways \/ BaseLevelFor(level, e.k))
  IN {e \in ents : ~dropA(e) /\ ~dropB(e)}
Inputs0(level, seed) == AddBoundary(lv[level], IF level = 0 THEN Close0({seed}) ELSE {seed})
Inputs1(level, in0) == LET lo == MinOf({Smallest(f).k : f \in in0})
                           hi == MaxOf({Largest(f).k : f \in in0})
                       IN AddBoundary(lv[level + 1], {f \in lv[level + 1] : UOverlap(f, lo, hi)})

\* ================= the design, for model checking ============================================
Init == /\ seq = 0 /\ mem = {} /\ imm = {} /\ hasImm = FALSE /\ lv = [l \in Levels |-> {}] /\ nextf = 1
        /\ snaps = {} /\ hist = <<>> /\ pins = {} /\ disk = {}
MCWrite(k, d) == seq < MaxSeq /\ Write(k, d, IF d THEN 0 ELSE seq + 1)
MCFlush == /\ hasImm
           /\ IF imm = {} THEN DropEmptyImm
              ELSE LET f == [n |-> nextf, e |-> imm]
                   IN \E level \in FlushLevels(f) : InstallFlush(level, f) /\ nextf' = nextf + 1
MCSwitch == mem # {} /\ SwitchMem
MCCompact(level, seed, pivot) ==
  /\ level + 1 < NL /\ seed \in lv[level]
  /\ LET in0 == Inputs0(level, seed)
         in1 == Inputs1(level, in0)
         surv == Survivors(level, EntsOf(in0 \cup in1), MinSnap)
         o1 == {e \in surv : IKLeq(e, pivot)}       \* the output may be closed at ANY entry boundary
         o2 == surv \ o1
         outs == (IF o1 = {} THEN {} ELSE {[n |-> nextf, e |-> o1]}) \cup
                 (IF o2 = {} THEN {} ELSE {[n |-> nextf + 1, e |-> o2]})
     IN /\ pivot \in surv \cup {None}
        /\ InstallCompaction(level, in0, in1, outs)
        /\ nextf' = nextf + 2
\* trivial move: a single input, nothing overlapping at the next level
MCMove(level, f) == /\ level + 1 < NL /\ f \in lv[level]
                    /\ Inputs0(level, f) = {f}          \* is_trivial_move: one input after closure and boundary files
                    /\ Inputs1(level, {f}) = {}
                    /\ InstallMove(level, f)
MCSnapOK == /\ Cardinality(snaps) < MaxSnaps /\ seq \notin snaps /\ snaps' = snaps \cup {seq}
            /\ UNCHANGED <<seq, mem, imm, hasImm, lv, nextf, hist, pins, disk>>
MCRelease(s) == s \in snaps /\ snaps' = snaps \ {s} /\ UNCHANGED <<seq, mem, imm, hasImm, lv, nextf, hist, pins, disk>>
MCPin == Cardinality(pins) < 1 /\ Pin /\ UNCHANGED nextf
\* ldb_remove_obsolete_files: keep what any live version references
MCGc == RemoveFiles(disk \ Needed) /\ disk \ Needed # {}
\* ldb_repair + open: logs become tables, every table is placed in level 0, numbers continue above everything seen
MCRepair == /\ AllowRepair /\ ~hasImm /\ snaps = {} /\ pins = {} /\ Files # {}
            /\ LET memf == IF mem = {} THEN {} ELSE {[n |-> nextf, e |-> mem]} IN
               /\ lv' = [l \in Levels |-> IF l = 0 THEN Files \cup memf ELSE {}]
               /\ disk' = disk \cup {f.n : f \in memf}
            /\ mem' = {} /\ nextf' = nextf + 1
            /\ UNCHANGED <<seq, imm, hasImm, snaps, hist, pins>>
Next == \/ \E k \in Keys, d \in BOOLEAN : MCWrite(k, d)
        \/ MCRepair
        \/ MCSwitch \/ MCFlush
        \/ \E l \in 0..(NL - 2) : \E seed \in lv[l] : \E p \in EntsOf(Files) \cup {None} : MCCompact(l, seed, p)
        \/ \E l \in 0..(NL - 2) : \E f \in lv[l] : MCMove(l, f)
        \/ MCSnapOK \/ \E s \in snaps : MCRelease(s)
        \/ (TrackFiles /\ (MCPin \/ (\E p \in pins : Unpin(p) /\ UNCHANGED nextf) \/ (MCGc /\ UNCHANGED nextf)))
Spec == Init /\ [][Next]_vars
Bound == Cardinality(Files) <= MaxFiles /\ nextf <= MaxNextF
=============================================================================
