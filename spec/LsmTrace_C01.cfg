SPECIFICATION TSpec
CONSTANTS
  NKeys = 16
  NL = 7
  MaxMemLevel = 2
  MaxSeq = 0
  MaxFiles = 0
  MaxSnaps = 0
  MaxNextF = 0
  TrackFiles = TRUE
  AllowRepair = FALSE
  UseBoundary = TRUE
  DropTombstoneAlways = FALSE
  CheckFlushLevel = TRUE
  CheckSS = FALSE
  CheckObsolete = FALSE
  CheckLs = FALSE
  CheckReport = FALSE
CHECK_DEADLOCK FALSE
INVARIANT InvReadLatestCur
INVARIANT InvEntriesAreWrites
