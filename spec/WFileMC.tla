------------------------------ MODULE WFileMC ------------------------------
(* Exhaustive check of WFile for a small buffer: every sequence of calls with every append size 0 .. 2B+2.         *)
EXTENDS WFile
CONSTANTS MaxN, MaxTotal
Next == (\E n \in 0..MaxN : WAppend(n)) \/ WFlush \/ WSync \/ WClose
Spec == Init /\ [][Next]_vars
Bound == Len(appended) <= MaxTotal
=============================================================================
