------------------------------- MODULE WFile -------------------------------
(* The buffered writable file of the environment (src/util/env_unix_impl.h: ldb_wfile_append0, ldb_wfile_flush,   *)
(* ldb_wfile_sync0, ldb_wfile_close), transcribed statement by statement. Every log record, MANIFEST record and    *)
(* table block reaches the kernel through it, and a write is acknowledged right after ldb_wfile_flush returned:    *)
(* "a process crash loses nothing that was acknowledged" (C03) rests on FlushedAll below, "synced writes survive   *)
(* power loss" (C02) on SyncedAll. A byte is identified by its position in the stream of appended bytes, so loss,   *)
(* duplication and reordering are all visible in Conserve.                                                         *)
(* One action per public call; `wr` is the list of the sizes of the write(2) requests the call issued (a request   *)
(* of 0 bytes issues no system call), which is what the binding compares with the system calls of the real code.   *)
EXTENDS Naturals, Sequences
CONSTANTS B          \* LDB_WRITE_BUFFER
VARIABLES buf,       \* file->buf[0 .. pos)
          disk,      \* bytes handed to write(2), in order
          appended,  \* ghost: every byte passed to append, in order
          synced,    \* length covered by the last fsync
          wr,        \* write requests of the last call
          isopen, lastAct
vars == <<buf, disk, appended, synced, wr, isopen, lastAct>>

Min(a, b) == IF a < b THEN a ELSE b
Fresh(n) == [i \in 1..n |-> Len(appended) + i]
Req(s) == IF Len(s) > 0 THEN <<Len(s)>> ELSE <<>>

Init == buf = <<>> /\ disk = <<>> /\ appended = <<>> /\ synced = 0 /\ wr = <<>> /\ isopen = TRUE /\ lastAct = "Init"

WAppend(n) ==
  /\ isopen
  /\ LET data == Fresh(n)
         c    == Min(n, B - Len(buf))                 \* copy_size
         buf1 == buf \o SubSeq(data, 1, c)
         rest == SubSeq(data, c + 1, n)               \* write_size after the copy
     IN IF Len(rest) = 0
          THEN buf' = buf1 /\ disk' = disk /\ wr' = <<>>
          ELSE IF Len(rest) < B
            THEN disk' = disk \o buf1 /\ buf' = rest /\ wr' = Req(buf1)                          \* flush, then buffer the rest
            ELSE disk' = disk \o buf1 \o rest /\ buf' = <<>> /\ wr' = Req(buf1) \o Req(rest)     \* flush, then write directly
  /\ appended' = appended \o Fresh(n)
  /\ lastAct' = "Append"
  /\ UNCHANGED <<synced, isopen>>

WFlush ==
  /\ isopen
  /\ disk' = disk \o buf /\ wr' = Req(buf) /\ buf' = <<>>
  /\ lastAct' = "Flush"
  /\ UNCHANGED <<appended, synced, isopen>>

WSync ==
  /\ isopen
  /\ disk' = disk \o buf /\ wr' = Req(buf) /\ buf' = <<>>
  /\ synced' = Len(disk')
  /\ lastAct' = "Sync"
  /\ UNCHANGED <<appended, isopen>>

WClose ==
  /\ isopen
  /\ disk' = disk \o buf /\ wr' = Req(buf) /\ buf' = <<>>
  /\ isopen' = FALSE
  /\ lastAct' = "Close"
  /\ UNCHANGED <<appended, synced>>

\* ---- properties ----
Conserve   == disk \o buf = appended                    \* nothing lost, duplicated or reordered; the buffer is the only unwritten part
BufBound   == Len(buf) <= B
FlushedAll == lastAct \in {"Flush", "Sync", "Close"} => disk = appended     \* what C03 needs at every acknowledgement
SyncedAll  == lastAct = "Sync" => synced = Len(appended)                    \* what C02 needs after a synced write
SyncedMono == synced <= Len(disk)
ReqBound   == \A i \in 1..Len(wr) : wr[i] > 0
=============================================================================
