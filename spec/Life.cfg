SPECIFICATION Spec
CONSTANTS
  Procs = {1, 2}
  Handles = {1, 2}
  CheckFirst = TRUE
INVARIANT AtMostOneHandle
INVARIANT HolderHasLock
INVARIANT ReleasedWhenFree
CHECK_DEADLOCK FALSE
