SPECIFICATION Spec
CONSTANTS
  CheckSignals = TRUE
  CheckReads = FALSE
CHECK_DEADLOCK FALSE
INVARIANT OneLeader
