-------------------------------- MODULE Conc --------------------------------
(* The concurrency design of lcdb's db_impl.c at lock / condition-variable granularity:                  *)
(*   writers (ldb_write: enqueue, wait until head or done, make_room_for_write with its waits, group    *)
(*   commit with the mutex released, publish, pop + signal followers, signal the new head),              *)
(*   the background worker (ldb_background_call: flush of the immutable memtable or a compaction with   *)
(*   the mutex released, clear the scheduled flag, maybe reschedule, broadcast, unlock),                  *)
(*   and close (ldb_destroy_internal: set shutting_down, wait until no background call is scheduled).    *)
(* Condition variables follow POSIX: wait atomically releases the mutex and joins the wait set; signal   *)
(* wakes one waiter if any (otherwise it is lost); broadcast wakes all.  No spurious wake-ups here:      *)
(* they would mask lost wake-ups.  Checked: deadlock freedom, safety of group commit, and (under weak    *)
(* fairness per thread) that every call returns.                                                         *)
EXTENDS Naturals, FiniteSets, Sequences, TLC

CONSTANTS W,            \* number of writer threads
          Calls,        \* writes per writer
          Cap,          \* writes the memtable holds before it must be switched
          L0Stop,       \* level-0 file count at which writers stop
          L0Compact,    \* level-0 file count at which a compaction is wanted
          ScheduleAtOpen, \* TRUE: as the code (maybe_schedule_compaction at the end of ldb_open); FALSE shows the hazard
          WithClose,    \* a closer thread calls close once all writers are done
          SignalHead,   \* FALSE: the leader forgets to signal the new head of the queue        (seeded)
          BcastAfterBg, \* FALSE: the background call forgets to broadcast when it finishes     (seeded)
          Resched       \* FALSE: the background call never reschedules itself                  (seeded)

VARIABLES pc, mu, queue, done, cvWait, bgWait, lastSeq, memSeq, memUsed, hasImm, l0, bgSched, shutting,
          grp, assigned, left, bpc, cpc
vars == <<pc, mu, queue, done, cvWait, bgWait, lastSeq, memSeq, memUsed, hasImm, l0, bgSched, shutting, grp, assigned, left, bpc, cpc>>

Writers == 1..W
BG == W + 1
CL == W + 2
Free == 0
QHead == IF queue = <<>> THEN 0 ELSE queue[1]

Init == /\ pc = [w \in Writers |-> "idle"] /\ mu = Free /\ queue = <<>> /\ done = [w \in Writers |-> FALSE]
        /\ cvWait = {} /\ bgWait = {} /\ lastSeq = 0 /\ memSeq = 0 /\ memUsed = 0 /\ hasImm = FALSE
        \* the database may be opened with any level-0 backlog (a big log recovered with a small write buffer); ldb_open ends
        \* with ldb_maybe_schedule_compaction, so background work is already scheduled when the backlog asks for it
        /\ l0 \in 0..L0Stop /\ bgSched = (ScheduleAtOpen /\ l0 >= L0Compact) /\ shutting = FALSE /\ grp = [w \in Writers |-> <<>>] /\ assigned = [w \in Writers |-> 0]
        /\ left = [w \in Writers |-> Calls] /\ bpc = "idle" /\ cpc = "idle"

Lock(t) == mu = Free /\ mu' = t
\* ldb_maybe_schedule_compaction (mutex held)
NeedsWork == hasImm \/ l0 >= L0Compact
MaybeSched == IF ~bgSched /\ ~shutting /\ NeedsWork THEN TRUE ELSE bgSched

\* ---------------- writers: ldb_write -------------------------------------------------------
Enq(w) == /\ pc[w] = "idle" /\ left[w] > 0 /\ Lock(w)
          /\ queue' = Append(queue, w) /\ done' = [done EXCEPT ![w] = FALSE]
          /\ pc' = [pc EXCEPT ![w] = "check"]
          /\ UNCHANGED <<cvWait, bgWait, lastSeq, memSeq, memUsed, hasImm, l0, bgSched, shutting, grp, assigned, left, bpc, cpc>>
\* while (!w.done && &w != head) wait(w.cv)
Check(w) == /\ pc[w] = "check" /\ mu = w
            /\ IF done[w] THEN pc' = [pc EXCEPT ![w] = "ret"] /\ mu' = Free /\ UNCHANGED cvWait
               ELSE IF QHead = w THEN pc' = [pc EXCEPT ![w] = "room"] /\ UNCHANGED <<mu, cvWait>>
               ELSE pc' = [pc EXCEPT ![w] = "wait"] /\ mu' = Free /\ cvWait' = cvWait \cup {w}
            /\ UNCHANGED <<queue, done, bgWait, lastSeq, memSeq, memUsed, hasImm, l0, bgSched, shutting, grp, assigned, left, bpc, cpc>>
Wake(w) == /\ pc[w] = "wait" /\ w \notin cvWait /\ Lock(w)
           /\ pc' = [pc EXCEPT ![w] = "check"]
           /\ UNCHANGED <<queue, done, cvWait, bgWait, lastSeq, memSeq, memUsed, hasImm, l0, bgSched, shutting, grp, assigned, left, bpc, cpc>>
\* ldb_make_room_for_write: one iteration of the loop per step (mutex held on entry)
Room(w) == /\ pc[w] = "room" /\ mu = w
           /\ IF memUsed < Cap
              THEN pc' = [pc EXCEPT ![w] = "lead"] /\ UNCHANGED <<mu, bgWait, memUsed, hasImm, bgSched>>
              ELSE IF hasImm \/ l0 >= L0Stop
                   THEN \* wait for the background thread: releases the mutex, joins the wait set
                        pc' = [pc EXCEPT ![w] = "roomwait"] /\ mu' = Free /\ bgWait' = bgWait \cup {w} /\ UNCHANGED <<memUsed, hasImm, bgSched>>
                   ELSE \* switch memtables and schedule the flush
                        /\ hasImm' = TRUE /\ memUsed' = 0
                        /\ bgSched' = (IF ~bgSched /\ ~shutting THEN TRUE ELSE bgSched)
                        /\ UNCHANGED <<pc, mu, bgWait>>
           /\ UNCHANGED <<queue, done, cvWait, lastSeq, memSeq, l0, shutting, grp, assigned, left, bpc, cpc>>
RoomWake(w) == /\ pc[w] = "roomwait" /\ w \notin bgWait /\ Lock(w)
               /\ pc' = [pc EXCEPT ![w] = "room"]
               /\ UNCHANGED <<queue, done, cvWait, bgWait, lastSeq, memSeq, memUsed, hasImm, l0, bgSched, shutting, grp, assigned, left, bpc, cpc>>
\* build the group: any non-empty prefix of the queue; release the mutex
Lead(w, n) == /\ pc[w] = "lead" /\ mu = w /\ n \in 1..Len(queue)
              /\ grp' = [grp EXCEPT ![w] = SubSeq(queue, 1, n)]
              /\ assigned' = [assigned EXCEPT ![w] = lastSeq]
              /\ mu' = Free /\ pc' = [pc EXCEPT ![w] = "log"]
              /\ UNCHANGED <<queue, done, cvWait, bgWait, lastSeq, memSeq, memUsed, hasImm, l0, bgSched, shutting, left, bpc, cpc>>
\* unlocked: append to the log and insert into the memtable
LogIns(w) == /\ pc[w] = "log"
             /\ memSeq' = assigned[w] + Len(grp[w])
             /\ pc' = [pc EXCEPT ![w] = "relock"]
             /\ UNCHANGED <<mu, queue, done, cvWait, bgWait, lastSeq, memUsed, hasImm, l0, bgSched, shutting, grp, assigned, left, bpc, cpc>>
\* relock; publish; pop the group, mark followers done and signal them; signal the new head
Finish(w) == /\ pc[w] = "relock" /\ Lock(w)
             /\ lastSeq' = assigned[w] + Len(grp[w])
             /\ memUsed' = memUsed + Len(grp[w])
             /\ LET n == Len(grp[w])
                    rest == SubSeq(queue, n + 1, Len(queue))
                    foll == {grp[w][i] : i \in 2..n}
                    newhead == IF rest = <<>> \/ ~SignalHead THEN {} ELSE {rest[1]}
                IN /\ queue' = rest
                   /\ done' = [x \in Writers |-> IF x \in foll THEN TRUE ELSE done[x]]
                   /\ cvWait' = cvWait \ (foll \cup newhead)
             /\ pc' = [pc EXCEPT ![w] = "ret"]
             /\ UNCHANGED <<bgWait, memSeq, hasImm, l0, bgSched, shutting, grp, assigned, left, bpc, cpc>>
Ret(w) == /\ pc[w] = "ret"
          /\ mu' = (IF mu = w THEN Free ELSE mu)
          /\ left' = [left EXCEPT ![w] = @ - 1]
          /\ pc' = [pc EXCEPT ![w] = "idle"]
          /\ UNCHANGED <<queue, done, cvWait, bgWait, lastSeq, memSeq, memUsed, hasImm, l0, bgSched, shutting, grp, assigned, bpc, cpc>>
WriterStep(w) == Enq(w) \/ Check(w) \/ Wake(w) \/ Room(w) \/ RoomWake(w) \/ (\E n \in 1..W : Lead(w, n)) \/ LogIns(w) \/ Finish(w) \/ Ret(w)

\* ---------------- background worker: ldb_background_call --------------------------------
BgStart == /\ bpc = "idle" /\ bgSched /\ Lock(BG)
           /\ bpc' = (IF shutting THEN "finish" ELSE IF hasImm THEN "flush" ELSE IF l0 >= L0Compact THEN "compact" ELSE "finish")
           /\ UNCHANGED <<pc, queue, done, cvWait, bgWait, lastSeq, memSeq, memUsed, hasImm, l0, bgSched, shutting, grp, assigned, left, cpc>>
\* the table is built / the compaction runs with the mutex released
BgUnlock == /\ bpc \in {"flush", "compact"} /\ mu = BG /\ mu' = Free
            /\ bpc' = (IF bpc = "flush" THEN "flushing" ELSE "compacting")
            /\ UNCHANGED <<pc, queue, done, cvWait, bgWait, lastSeq, memSeq, memUsed, hasImm, l0, bgSched, shutting, grp, assigned, left, cpc>>
BgRelock == /\ bpc \in {"flushing", "compacting"} /\ Lock(BG)
            /\ IF bpc = "flushing" THEN hasImm' = FALSE /\ l0' = l0 + 1 ELSE l0' = 0 /\ UNCHANGED hasImm
            /\ bpc' = "finish"
            /\ UNCHANGED <<pc, queue, done, cvWait, bgWait, lastSeq, memSeq, memUsed, bgSched, shutting, grp, assigned, left, cpc>>
\* scheduled := 0; maybe_schedule; broadcast; unlock
BgFinish == /\ bpc = "finish" /\ mu = BG
            /\ bgSched' = (Resched /\ ~shutting /\ NeedsWork)
            /\ bgWait' = (IF BcastAfterBg THEN {} ELSE bgWait)
            /\ mu' = Free /\ bpc' = "idle"
            /\ UNCHANGED <<pc, queue, done, cvWait, lastSeq, memSeq, memUsed, hasImm, l0, shutting, grp, assigned, left, cpc>>
BgStep == BgStart \/ BgUnlock \/ BgRelock \/ BgFinish

\* ---------------- close: ldb_destroy_internal ---------------------------------------------
WritersDone == \A w \in Writers : left[w] = 0 /\ pc[w] = "idle"
CloseStart == /\ WithClose /\ cpc = "idle" /\ WritersDone /\ Lock(CL)
              /\ shutting' = TRUE /\ cpc' = "loop"
              /\ UNCHANGED <<pc, queue, done, cvWait, bgWait, lastSeq, memSeq, memUsed, hasImm, l0, bgSched, grp, assigned, left, bpc>>
CloseLoop == /\ cpc = "loop" /\ mu = CL
             /\ IF bgSched THEN cpc' = "wait" /\ mu' = Free /\ bgWait' = bgWait \cup {CL}
                ELSE cpc' = "done" /\ mu' = Free /\ UNCHANGED bgWait
             /\ UNCHANGED <<pc, queue, done, cvWait, lastSeq, memSeq, memUsed, hasImm, l0, bgSched, shutting, grp, assigned, left, bpc>>
CloseWake == /\ cpc = "wait" /\ CL \notin bgWait /\ Lock(CL) /\ cpc' = "loop"
             /\ UNCHANGED <<pc, queue, done, cvWait, bgWait, lastSeq, memSeq, memUsed, hasImm, l0, bgSched, shutting, grp, assigned, left, bpc>>
CloseStep == CloseStart \/ CloseLoop \/ CloseWake

Next == (\E w \in Writers : WriterStep(w)) \/ BgStep \/ CloseStep
Spec == Init /\ [][Next]_vars
FairSpec == Spec /\ (\A w \in Writers : WF_vars(WriterStep(w))) /\ WF_vars(BgStep) /\ WF_vars(CloseStep)

\* ---------------- properties -----------------------------------------------------------------
AllDone == WritersDone /\ (WithClose => cpc = "done")
\* C08 / C04: nothing is published that is not in the memtable; one leader at a time
PublishedInserted == lastSeq <= memSeq
OneLeader == Cardinality({w \in Writers : pc[w] \in {"room", "roomwait", "lead", "log", "relock"}}) <= 1
SeqContiguous == \A w \in Writers : pc[w] \in {"log", "relock"} => assigned[w] = lastSeq
\* close returns only when no background call is scheduled or running
CloseSafe == cpc = "done" => ~bgSched /\ bpc = "idle"
\* C09: a state in which some call has not returned and no step is enabled is a deadlock / lost wake-up
NoStuck == (~ENABLED Next) => AllDone
\* C09: every call returns
Live == <>[]AllDone
=============================================================================
