------------------------------- MODULE Kv -------------------------------
(* The abstract store: what "a sorted map dictates".                      *)
(* Keys are ranks under the configured comparator (0..NKeys-1), a value   *)
(* is the id of the put that wrote it (0 = absent).  This module is the   *)
(* top-level oracle: Lsm, Conc and Disk each carry a ghost copy of it,    *)
(* and the API-level trace specification KvTrace replays real executions  *)
(* against it directly.                                                   *)
EXTENDS Naturals, Sequences, FiniteSets

CONSTANT NKeys
Keys == 0..(NKeys - 1)
Inv == NKeys                      \* cursor value meaning "not valid"
Absent == 0

EmptyMap == [k \in Keys |-> Absent]

\* ops is a sequence of <<key, valueId>> (valueId = 0 is a delete), applied left to right
RECURSIVE ApplyOps(_, _)
ApplyOps(m, ops) ==
  IF ops = <<>> THEN m
  ELSE ApplyOps([m EXCEPT ![Head(ops)[1]] = Head(ops)[2]], Tail(ops))

Live(v) == {k \in Keys : v[k] # Absent}
Min(X) == CHOOSE x \in X : \A y \in X : x <= y
Max(X) == CHOOSE x \in X : \A y \in X : x >= y

\* cursor semantics over a frozen view v
First(v) == IF Live(v) = {} THEN Inv ELSE Min(Live(v))
Last(v) == IF Live(v) = {} THEN Inv ELSE Max(Live(v))
Ge(v, t) == LET s == {k \in Live(v) : k >= t} IN IF s = {} THEN Inv ELSE Min(s)
Gt(v, t) == LET s == {k \in Live(v) : k > t} IN IF s = {} THEN Inv ELSE Min(s)
Le(v, t) == LET s == {k \in Live(v) : k <= t} IN IF s = {} THEN Inv ELSE Max(s)
Lt(v, t) == LET s == {k \in Live(v) : k < t} IN IF s = {} THEN Inv ELSE Max(s)

\* position after a positioning call `op` with target t on an iterator at pos over view v
NewPos(v, pos, op, t) ==
  CASE op = "first"   -> First(v)
    [] op = "last"    -> Last(v)
    [] op = "seek"    -> Ge(v, t)
    [] op = "seek_ge" -> Ge(v, t)
    [] op = "seek_gt" -> Gt(v, t)
    [] op = "seek_le" -> Le(v, t)
    [] op = "seek_lt" -> Lt(v, t)
    [] op = "next"    -> Gt(v, pos)
    [] op = "prev"    -> Lt(v, pos)
=============================================================================
