------------------------------- MODULE Publish -------------------------------
(* C10 (publication order): lock-free memtable reads run against an insert in progress.  The writer initialises  *)
(* a skiplist node and then links it by storing a pointer; readers load the pointer and dereference the node.    *)
(* With a release store and an acquire load the reader that sees the pointer sees the initialised node; with a   *)
(* relaxed store or a relaxed load it may see the pointer but stale (uninitialised) contents.                    *)
(* PublishOrder / ReadOrder are extracted from the source at check time (skiplist.c).                            *)
EXTENDS Naturals, FiniteSets
CONSTANTS Nodes, Readers, PublishOrder, ReadOrder
VARIABLES inited,    \* nodes whose fields the writer has written (in its own view)
          linked,    \* nodes reachable through a published pointer
          sees,      \* reader -> nodes whose initialisation is visible to it
          derefBad   \* a reader dereferenced a node whose contents it cannot see yet
vars == <<inited, linked, sees, derefBad>>
Init == inited = {} /\ linked = {} /\ sees = [r \in Readers |-> {}] /\ derefBad = FALSE
WInit(n) == n \notin inited /\ inited' = inited \cup {n} /\ UNCHANGED <<linked, sees, derefBad>>
WLink(n) == n \in inited /\ n \notin linked /\ linked' = linked \cup {n} /\ UNCHANGED <<inited, sees, derefBad>>
Sync == PublishOrder = "release" /\ ReadOrder = "acquire"
\* a reader follows a published pointer: with release/acquire the node's initialisation becomes visible to it
RLoad(r, n) == /\ n \in linked
               /\ IF Sync THEN sees' = [sees EXCEPT ![r] = @ \cup {n}]
                  ELSE \E v \in {sees[r], sees[r] \cup {n}} : sees' = [sees EXCEPT ![r] = v]
               /\ derefBad' = (derefBad \/ n \notin sees'[r])
               /\ UNCHANGED <<inited, linked>>
Next == \E n \in Nodes : WInit(n) \/ WLink(n) \/ \E r \in Readers : RLoad(r, n)
Spec == Init /\ [][Next]_vars
NoUninitRead == ~derefBad
=============================================================================
