SPECIFICATION Spec
CONSTANTS
  NKeys = 2
  NL = 3
  MaxMemLevel = 2
  MaxSeq = 3
  MaxFiles = 3
  MaxNextF = 6
  TrackFiles = FALSE
  MaxSnaps = 1
  AllowRepair = FALSE
  UseBoundary = TRUE
  DropTombstoneAlways = FALSE
INVARIANT ReadLatest
INVARIANT LevelsWellFormed
INVARIANT Recency
INVARIANT NoLiveFileMissing
INVARIANT EntriesAreWrites
CONSTRAINT Bound
CHECK_DEADLOCK FALSE
