------------------------------- MODULE LsmGen -------------------------------
(* Behaviour generation (spec -> code).  The engine's reaction to API-level operations is written out   *)
(* exactly as the code computes it for small data (ldb_version_pick_level_for_memtable_output,          *)
(* ldb_version_get_overlapping_inputs with its level-0 restarts, add_boundary_inputs,                   *)
(* ldb_versions_setup_other_inputs with the input expansion, the drop rules of                          *)
(* ldb_do_compaction_work), so that an operation list produced here drives the real library into the   *)
(* same rare layouts: chains of partially overlapping level-0 files, boundary files, expanded inputs,  *)
(* tombstones above deeper data, flushes pushed to level 1 or 2, snapshots between versions.            *)
(* TLC runs this in simulation mode; behaviours are written out as operation lists (history variable   *)
(* `ops`) together with the tags of the situations they reached; the seq driver replays them and the    *)
(* executions are validated by KvTrace and LsmTrace.  The invariants of Lsm hold here too (checked).    *)
EXTENDS Lsm, Integers, Json, IOUtils

CONSTANTS MaxOps, OutDir,
          WithBig      \* TRUE: some puts carry a value larger than max_file_size (1 MiB), so compaction outputs are
                       \* closed after every such entry and ONE USER KEY CAN BE SPLIT OVER TWO FILES of a level
VARIABLES ops, tags,
          big          \* sequence numbers of the entries with a big value
gvars == <<vars, ops, tags, big>>

NoKey == -1
Lo(b) == IF b = NoKey THEN -1 ELSE b            \* -1 = before every key
Hi(e) == IF e = NoKey THEN NKeys ELSE e         \* NKeys = after every key
\* sizes in units of 100 KB: a big value is 1.15 MB, everything else is negligible; max_file_size is 1 MiB
IsBig(e) == e.s \in big
FileBig(f) == \E e \in f.e : IsBig(e)

\* ldb_version_get_overlapping_inputs on the level function L: at level 0 the range grows to cover every picked file
RECURSIVE Ov0(_, _, _, _, _)
Ov0(L, lo, hi, growLo, growHi) ==
  LET S == {f \in L[0] : ~(Largest(f).k < lo \/ Smallest(f).k > hi)} IN
  IF S = {} THEN S
  ELSE LET lo2 == IF growLo THEN MinOf({lo} \cup {Smallest(f).k : f \in S}) ELSE lo
           hi2 == IF growHi THEN MaxOf({hi} \cup {Largest(f).k : f \in S}) ELSE hi
       IN IF lo2 = lo /\ hi2 = hi THEN S ELSE Ov0(L, lo2, hi2, growLo, growHi)
Overlapping(L, level, lo, hi, boundedLo, boundedHi) ==
  IF level = 0 THEN Ov0(L, lo, hi, boundedLo, boundedHi)
  ELSE {f \in L[level] : ~(Largest(f).k < lo \/ Smallest(f).k > hi)}
RangeLo(S) == MinOf({Smallest(f).k : f \in S})
RangeHi(S) == MaxOf({Largest(f).k : f \in S})
\* files of a level > 0 in key order
SortFiles(S) == [i \in 1..Cardinality(S) |-> CHOOSE f \in S : Cardinality({g \in S : IKLess(Smallest(g), Smallest(f))}) = i - 1]
\* ldb_versions_compact_range, level > 0: "avoid compacting too much in one shot" - the inputs are cut after the first
\* file that brings the total to max_file_size, i.e. after the first file holding a big value
RECURSIVE CutAtBig(_, _)
CutAtBig(q, i) == IF i > Len(q) THEN {} ELSE IF FileBig(q[i]) THEN {q[i]} ELSE {q[i]} \cup CutAtBig(q, i + 1)
Truncated(level, S) == IF level = 0 \/ S = {} THEN S ELSE CutAtBig(SortFiles(S), 1)

\* ldb_versions_setup_other_inputs on L
Setup(L, level, start0) ==
  LET in0 == AddBoundary(L[level], start0)
      in1 == AddBoundary(L[level + 1], Overlapping(L, level + 1, RangeLo(in0), RangeHi(in0), TRUE, TRUE))
      allS == in0 \cup in1
      exp0 == AddBoundary(L[level], Overlapping(L, level, RangeLo(allS), RangeHi(allS), TRUE, TRUE))
      exp1 == AddBoundary(L[level + 1], Overlapping(L, level + 1, RangeLo(exp0), RangeHi(exp0), TRUE, TRUE))
      grow == in1 # {} /\ Cardinality(exp0) > Cardinality(in0) /\ Cardinality(exp1) = Cardinality(in1)
  IN [in0 |-> IF grow THEN exp0 ELSE in0, in1 |-> IF grow THEN exp1 ELSE in1, grew |-> grow,
      bnd0 |-> in0 # start0,
      bnd1 |-> in1 # Overlapping(L, level + 1, RangeLo(in0), RangeHi(in0), TRUE, TRUE),
      bndx |-> grow /\ exp0 # Overlapping(L, level, RangeLo(allS), RangeHi(allS), TRUE, TRUE)]
\* drop rules with the deeper levels taken from L
BaseFor(L, level, k) == \A j \in (level + 2)..(NL - 1) : \A f \in L[j] : ~InURange(f, k)
SurvL(L, level, ents, ss) ==
  LET newer(e) == {x \in ents : x.k = e.k /\ x.s > e.s}
      prev(e) == CHOOSE x \in newer(e) : \A y \in newer(e) : x.s <= y.s
      dropA(e) == newer(e) # {} /\ prev(e).s <= ss
      dropB(e) == e.d /\ e.s <= ss /\ BaseFor(L, level, e.k)
  IN {e \in ents : ~dropA(e) /\ ~dropB(e)}
\* output files: the builder is closed as soon as its size reaches max_file_size, i.e. right after every big entry
SortEnts(S) == [i \in 1..Cardinality(S) |-> CHOOSE e \in S : Cardinality({x \in S : IKLess(x, e)}) = i - 1]
RECURSIVE Split(_, _, _, _)
Split(q, i, cur, n) ==     \* -> set of files numbered from n
  IF i > Len(q) THEN (IF cur = {} THEN {} ELSE {[n |-> n, e |-> cur]})
  ELSE IF IsBig(q[i]) THEN {[n |-> n, e |-> cur \cup {q[i]}]} \cup Split(q, i + 1, {}, n + 1)
       ELSE Split(q, i + 1, cur \cup {q[i]}, n)
\* ldb_test_compact_range: compaction rounds until nothing at the level overlaps what is left of the range
RECURSIVE Rounds(_, _, _, _, _, _, _, _)
Rounds(L, nf, level, lo, hi, bLo, bHi, tg) ==
  LET start0 == Truncated(level, Overlapping(L, level, lo, hi, bLo, bHi)) IN
  IF start0 = {} THEN [L |-> L, nf |-> nf, tags |-> tg]
  ELSE LET su == Setup(L, level, start0)
           ents == EntsOf(su.in0 \cup su.in1)
           surv == SurvL(L, level, ents, MinSnap)
           outs == Split(SortEnts(surv), 1, {}, nf)
           L2 == [L EXCEPT ![level] = @ \ su.in0, ![level + 1] = (@ \ su.in1) \cup outs]
           direct == {f \in L[level] : ~(Largest(f).k < lo \/ Smallest(f).k > hi)}
           lastIn == CHOOSE f \in su.in0 : \A g \in su.in0 : IKLeq(Largest(g), Largest(f))
           tg2 == tg \cup (IF level = 0 /\ start0 # direct THEN {"close0"} ELSE {})
                     \cup (IF level = 0 /\ bLo /\ RangeLo(start0) < lo THEN {"close0down"} ELSE {})
                     \cup (IF level = 0 /\ bLo /\ (\E f \in start0 : Largest(f).k < lo) THEN {"close0chain"} ELSE {})
                     \cup (IF su.grew THEN {"expand"} ELSE {})
                     \cup (IF su.bnd0 THEN {"boundary0"} ELSE {}) \cup (IF su.bnd1 THEN {"boundary1"} ELSE {})
                     \cup (IF su.bndx THEN {"boundaryx"} ELSE {})
                     \cup (IF \E x \in ents \ surv : x.d THEN {"tombdrop"} ELSE {})
                     \cup (IF \E x \in surv : x.d THEN {"tombkeep"} ELSE {})
                     \cup (IF snaps # {} /\ \E x, y \in surv : x.k = y.k /\ x # y THEN {"snapkeep"} ELSE {})
                     \cup (IF \E f, g \in outs : f # g /\ Largest(f).k = Smallest(g).k THEN {"keysplit"} ELSE {})
                     \cup (IF Cardinality(outs) > 1 THEN {"multiout"} ELSE {})
                     \cup (IF start0 # Overlapping(L, level, lo, hi, bLo, bHi) THEN {"chunked"} ELSE {})
                     \cup (IF su.in1 # {} THEN {"merge"} ELSE {"push"})
       IN \* the next round starts at the largest key of the last input file (manual.begin = tmp_storage)
          Rounds(L2, nf + Cardinality(outs) + 1, level, Largest(lastIn).k, hi, TRUE, bHi, tg2)

GInit == Init /\ ops = <<>> /\ tags = {} /\ big = {}
Rec(o) == ops' = Append(ops, o)
\* simulation picks uniformly among successor states: a weight field multiplies the successors of cheap operations
\* so that ranged compactions (many parameter choices) do not crowd them out
RecW(o, n) == \E w \in 1..n : ops' = Append(ops, [o EXCEPT !.w = w])
CanOp == Len(ops) < MaxOps

GPut(k) == CanOp /\ Write(k, FALSE, seq + 1) /\ RecW([op |-> "put", a |-> k, b |-> 0, c |-> 0, w |-> 0], 8) /\ UNCHANGED <<tags, big>>
GPutBig(k) == /\ WithBig /\ CanOp /\ Cardinality(big) < 6 /\ Write(k, FALSE, seq + 1) /\ big' = big \cup {seq + 1}
              /\ RecW([op |-> "put", a |-> k, b |-> 1, c |-> 0, w |-> 0], 10) /\ UNCHANGED tags
GDel(k) == CanOp /\ Write(k, TRUE, 0) /\ RecW([op |-> "del", a |-> k, b |-> 0, c |-> 0, w |-> 0], 3) /\ UNCHANGED <<tags, big>>
\* forced flush: the memtable becomes a table at exactly the level the code picks
GFlush == /\ CanOp /\ mem # {} /\ ~hasImm
          /\ LET f == [n |-> nextf, e |-> mem]  lev == PickLevel(f) IN
             /\ lv' = [lv EXCEPT ![lev] = @ \cup {f}] /\ disk' = disk \cup {f.n}
             /\ tags' = tags \cup (IF lev = 1 THEN {"flush1"} ELSE IF lev = 2 THEN {"flush2"} ELSE {"flush0"})
          /\ mem' = {} /\ nextf' = nextf + 1 /\ RecW([op |-> "flush", a |-> 0, b |-> 0, c |-> 0, w |-> 0], 8)
          /\ UNCHANGED <<seq, imm, hasImm, snaps, hist, pins, big>>
\* close + open: the log is replayed into a level-0 table
GReopen == /\ CanOp /\ mem # {} /\ snaps = {}
           /\ lv' = [lv EXCEPT ![0] = @ \cup {[n |-> nextf, e |-> mem]}] /\ disk' = disk \cup {nextf}
           /\ mem' = {} /\ nextf' = nextf + 1 /\ RecW([op |-> "reopen", a |-> 0, b |-> 0, c |-> 0, w |-> 0], 14)
           /\ tags' = tags \cup (IF Cardinality(lv[0]) >= 2 THEN {"l0x3"} ELSE {})
           /\ UNCHANGED <<seq, imm, hasImm, snaps, hist, pins, big>>
\* ldb_test_compact_range(level, b, e)
GCompact(level, b, e) ==
  /\ CanOp /\ level + 1 < NL /\ (b = NoKey \/ e = NoKey \/ b <= e)
  /\ Overlapping(lv, level, Lo(b), Hi(e), b # NoKey, e # NoKey) # {}
  /\ LET r == Rounds(lv, nextf, level, Lo(b), Hi(e), b # NoKey, e # NoKey, tags) IN
     /\ lv' = r.L /\ nextf' = r.nf /\ tags' = r.tags
     /\ disk' = disk \cup {f.n : f \in UNION {r.L[l] : l \in Levels}}
  /\ Rec([op |-> "compact", a |-> level, b |-> b, c |-> e, w |-> 0])
  /\ UNCHANGED <<seq, mem, imm, hasImm, snaps, hist, pins, big>>
\* metadata lost, ldb_repair, open: the log becomes a table, every table goes to level 0 (C19)
GRepair(variant) ==
  /\ AllowRepair /\ CanOp /\ snaps = {} /\ Files # {} /\ "repair" \notin tags
  /\ LET memf == IF mem = {} THEN {} ELSE {[n |-> nextf, e |-> mem]} IN
     /\ lv' = [l \in Levels |-> IF l = 0 THEN Files \cup memf ELSE {}] /\ disk' = disk \cup {f.n : f \in memf}
  /\ mem' = {} /\ nextf' = nextf + 1 /\ tags' = tags \cup {"repair"}
  /\ RecW([op |-> "repair", a |-> variant, b |-> 0, c |-> 0, w |-> 0], 6)
  /\ UNCHANGED <<seq, imm, hasImm, snaps, hist, pins, big>>
GSnap == /\ CanOp /\ snaps = {} /\ seq > 0 /\ snaps' = {seq} /\ RecW([op |-> "snap", a |-> 1, b |-> 0, c |-> 0, w |-> 0], 3)
         /\ UNCHANGED <<seq, mem, imm, hasImm, lv, nextf, hist, pins, disk, tags, big>>
\* a second, newer snapshot (never released by the script): reads through it must keep seeing the newest values of its moment
GSnap2 == /\ CanOp /\ Cardinality(snaps) = 1 /\ seq \notin snaps /\ snaps' = snaps \cup {seq}
          /\ ~(\E i \in 1..Len(ops) : ops[i].op = "snap" /\ ops[i].a = 2)
          /\ RecW([op |-> "snap", a |-> 2, b |-> 0, c |-> 0, w |-> 0], 60)
          /\ UNCHANGED <<seq, mem, imm, hasImm, lv, nextf, hist, pins, disk, tags, big>>
Held1 == Cardinality({i \in 1..Len(ops) : ops[i].op = "snap" /\ ops[i].a = 1}) > Cardinality({i \in 1..Len(ops) : ops[i].op = "rel"})
GRel == /\ CanOp /\ snaps # {} /\ Held1 /\ snaps' = snaps \ {MinOf(snaps)} /\ RecW([op |-> "rel", a |-> 1, b |-> 0, c |-> 0, w |-> 0], 12)
        /\ UNCHANGED <<seq, mem, imm, hasImm, lv, nextf, hist, pins, disk, tags, big>>
GNext == \/ \E k \in Keys : GPut(k) \/ GDel(k) \/ GPutBig(k)
         \/ GFlush \/ GReopen \/ GSnap \/ GRel \/ (\E v \in 0..3 : GRepair(v))
         \* ranges are taken from the file boundaries of the level (and just past them), where the selection logic has its cases
         \/ \E level \in 0..(NL - 2) :
              /\ (level = 0 => Cardinality(lv[0]) >= 2)
              /\ \E b \in ({NoKey} \cup {Smallest(f).k : f \in lv[level]} \cup {Largest(f).k + 1 : f \in lv[level]}) \cap (Keys \cup {NoKey}) :
                 \E e \in ({NoKey} \cup {Largest(f).k : f \in lv[level]} \cup {Smallest(f).k : f \in lv[level]}) \cap (Keys \cup {NoKey}) :
                    GCompact(level, b, e)
GSpec == GInit /\ [][GNext]_gvars
\* no automatic compaction may become due: fewer than four level-0 files (scores stay below 1 for small data)
GBound == Cardinality(lv[0]) <= 3 /\ \A l \in 1..(NL - 1) : Cardinality({f \in lv[l] : FileBig(f)}) <= 7
\* side effect: write finished behaviours that reached something interesting (evaluated as a state constraint)
Interesting == tags \ {"flush0", "push", "merge"} # {}
Dump == IF Len(ops) = MaxOps /\ Interesting
        THEN ndJsonSerialize(OutDir \o "/b" \o ToString(TLCGet("stats").traces) \o "_" \o ToString(Cardinality(tags)) \o ".ndjson",
                             <<[tags |-> tags, ops |-> ops]>>)
        ELSE TRUE
GConstraint == GBound /\ Dump
\* ---- a scenario family: the shape of the histories in which one user key ends up split over two files of a level ----
\*   two small flushes (they settle in deeper levels), a memtable with big values and a snapshot between two versions of
\*   a key, flush or reopen, a full level-0 compaction (its outputs are cut after every big entry), then - with or without
\*   the snapshot - a ranged compaction of level 1 (chunked by size, expanded, extended by boundary files).
\* The phase is a function of the history, parameters are chosen by TLC's simulation.
NStruct == Cardinality({i \in 1..Len(ops) : ops[i].op \in {"flush", "reopen", "compact"}})
MemN == Cardinality(mem)
GNextF ==
  \/ NStruct = 0 /\ MemN < 3 /\ \E k \in Keys : GPut(k)
  \/ NStruct = 0 /\ MemN >= 1 /\ GFlush
  \/ NStruct = 1 /\ MemN < 2 /\ \E k \in Keys : GPut(k)
  \/ NStruct = 1 /\ MemN >= 1 /\ GFlush
  \/ NStruct = 2 /\ MemN < 6 /\ \E k \in Keys : (GPut(k) \/ GPutBig(k) \/ GDel(k))
  \/ NStruct = 2 /\ MemN >= 1 /\ MemN < 6 /\ GSnap
  \/ NStruct = 2 /\ MemN >= 3 /\ (GFlush \/ GReopen)
  \/ NStruct = 3 /\ (IF lv[0] # {} THEN GCompact(0, NoKey, NoKey) ELSE \E b \in Keys \cup {NoKey} : GCompact(1, b, NoKey))
  \/ NStruct = 4 /\ GRel
  \/ NStruct = 4 /\ GSnap2
  \* (with one snapshot held, it is first released or joined by a second, newer one: reads through the newer one are checked after the compaction)
  \/ NStruct = 4 /\ Cardinality(snaps) # 1 /\ \E level \in 1..2 : \E b, e \in Keys \cup {NoKey} : GCompact(level, b, e)
GSpecF == GInit /\ [][GNextF]_gvars
DumpF == IF NStruct = 5 /\ (tags \cap {"keysplit", "boundary0", "boundary1", "boundaryx", "expand", "chunked", "multiout"}) # {}
         THEN ndJsonSerialize(OutDir \o "/f" \o ToString(TLCGet("stats").traces) \o "_" \o ToString(Cardinality(tags)) \o ".ndjson",
                              <<[tags |-> tags \cup (IF Cardinality(snaps) = 2 THEN {"snap2"} \cup (IF "boundaryx" \in tags THEN {"snap2boundaryx"} ELSE {}) ELSE {}), ops |-> ops]>>)
         ELSE TRUE
GConstraintF == GBound /\ DumpF
\* ---- a second scenario family: four level-0 files, so that the AUTOMATIC level-0 compaction becomes due ----
\*   two flushes that settle below level 0, then four small flushes that each overlap level 1 (and therefore stay in level 0).
\*   The behaviour ends there: the real engine then picks by compact pointer, closes the level-0 input set, may move a single
\*   non-overlapping file trivially, and the structure layer checks what it did.
L0Disjoint(f) == \A g \in lv[0] \ {f} : ~UOverlap(g, Smallest(f).k, Largest(f).k)
\* the file the size compaction picks first (empty compact pointer: the level-0 file with the smallest key) overlaps no other
\* level-0 file but does overlap level 1: a single-input compaction that must NOT be a trivial move
AutoFirstSingle == LET f0 == CHOOSE f \in lv[0] : \A g \in lv[0] : IKLeq(Smallest(f), Smallest(g))
                       start0 == Ov0(lv, Smallest(f0).k, Largest(f0).k, TRUE, TRUE)
                       su == Setup(lv, 0, start0)
                   IN su.in0 = {f0} /\ \E g \in su.in1 : ~(IKLess(Largest(f0), Smallest(g)) \/ IKLess(Largest(g), Smallest(f0)))   \* a real (internal-key) overlap
GNextA == /\ Cardinality(lv[0]) < 4
          /\ \/ NStruct \in 0..1 /\ MemN < 3 /\ \E k \in Keys : GPut(k)
             \/ NStruct \in 0..1 /\ MemN >= 2 /\ GFlush
             \/ NStruct \in 2..6 /\ MemN < 2 /\ \E k \in Keys : (GPut(k) \/ GDel(k))
             \/ NStruct \in 2..6 /\ MemN >= 1 /\ GFlush
GSpecA == GInit /\ [][GNextA]_gvars
DumpA == IF Cardinality(lv[0]) >= 4
         THEN ndJsonSerialize(OutDir \o "/a" \o ToString(TLCGet("stats").traces) \o "_" \o ToString(Cardinality(tags)) \o ".ndjson",
                              <<[tags |-> tags \cup {"auto0"} \cup (IF \E f \in lv[0] : L0Disjoint(f) THEN {"auto0single"} ELSE {})
                                                 \cup (IF lv[1] # {} THEN {"auto0l1"} ELSE {})
                                                 \cup (IF AutoFirstSingle THEN {"auto0first"} ELSE {}), ops |-> ops]>>)
         ELSE TRUE
GConstraintA == Cardinality(lv[0]) <= 4 /\ DumpA
\* ---- a third scenario family: chains of overlapping level-0 files (made by reopen) and a ranged level-0 compaction ----
GNextC == \/ NStruct \in 0..2 /\ MemN < 2 /\ \E k \in Keys : (GPut(k) \/ GDel(k))
          \/ NStruct \in 0..2 /\ MemN >= 1 /\ GReopen
          \/ NStruct = 3 /\ \E b, e \in Keys \cup {NoKey} : GCompact(0, b, e)
GSpecC == GInit /\ [][GNextC]_gvars
DumpC == IF NStruct = 4 /\ (tags \cap {"close0", "close0down", "close0chain"}) # {}
         THEN ndJsonSerialize(OutDir \o "/c" \o ToString(TLCGet("stats").traces) \o "_" \o ToString(Cardinality(tags)) \o ".ndjson",
                              <<[tags |-> tags, ops |-> ops]>>)
         ELSE TRUE
GConstraintC == GBound /\ DumpC
\* ---- targeted generation: breadth-first search for the SHORTEST behaviours that reach a rare situation ----
\* (run with VIEW GView so that the operation history does not split states, and with -continue to collect several)
CONSTANT Target
GView == <<vars, tags, big>>
GBoundT == GBound /\ Len(ops) <= MaxOps
NotReached == (Target \subseteq tags) =>
                (ndJsonSerialize(OutDir \o "/t" \o ToString(Len(ops)) \o "_" \o ToString(seq) \o "_" \o ToString(nextf) \o "_" \o ToString(Cardinality(Files)) \o ".ndjson",
                                 <<[tags |-> tags, ops |-> ops]>>) /\ FALSE)
=============================================================================
