------------------------------- MODULE LsmGen -------------------------------
(* Behaviour generation (spec -> code).  The engine's reaction to API-level operations is written out   *)
(* exactly as the code computes it for small data (ldb_version_pick_level_for_memtable_output,          *)
(* ldb_version_get_overlapping_inputs with its level-0 restarts, add_boundary_inputs,                   *)
(* ldb_versions_setup_other_inputs with the input expansion, the drop rules of                          *)
(* ldb_do_compaction_work), so that an operation list produced here drives the real library into the   *)
(* same rare layouts: chains of partially overlapping level-0 files, boundary files, expanded inputs,  *)
(* tombstones above deeper data, flushes pushed to level 1 or 2, snapshots between versions.            *)
(* TLC runs this in simulation mode; behaviours are written out as operation lists (history variable   *)
(* `ops`) together with the tags of the situations they reached; the seq driver replays them and the    *)
(* executions are validated by KvTrace and LsmTrace.  The invariants of Lsm hold here too (checked).    *)
EXTENDS Lsm, Integers, Json, IOUtils

CONSTANTS MaxOps, OutDir
VARIABLES ops, tags
gvars == <<vars, ops, tags>>

NoKey == -1
Lo(b) == IF b = NoKey THEN -1 ELSE b            \* -1 = before every key
Hi(e) == IF e = NoKey THEN NKeys ELSE e         \* NKeys = after every key

\* ldb_version_get_overlapping_inputs: at level 0 the range grows to cover every picked file and the search restarts
RECURSIVE Ov0(_, _, _, _)
Ov0(lo, hi, growLo, growHi) ==
  LET S == {f \in lv[0] : ~(Largest(f).k < lo \/ Smallest(f).k > hi)} IN
  IF S = {} THEN S
  ELSE LET lo2 == IF growLo THEN MinOf({lo} \cup {Smallest(f).k : f \in S}) ELSE lo
           hi2 == IF growHi THEN MaxOf({hi} \cup {Largest(f).k : f \in S}) ELSE hi
       IN IF lo2 = lo /\ hi2 = hi THEN S ELSE Ov0(lo2, hi2, growLo, growHi)
Overlapping(level, lo, hi, boundedLo, boundedHi) ==
  IF level = 0 THEN Ov0(lo, hi, boundedLo, boundedHi)
  ELSE {f \in lv[level] : ~(Largest(f).k < lo \/ Smallest(f).k > hi)}
RangeLo(S) == MinOf({Smallest(f).k : f \in S})
RangeHi(S) == MaxOf({Largest(f).k : f \in S})

\* ldb_versions_setup_other_inputs
Setup(level, start0) ==
  LET in0 == AddBoundary(lv[level], start0)
      in1 == AddBoundary(lv[level + 1], Overlapping(level + 1, RangeLo(in0), RangeHi(in0), TRUE, TRUE))
      allS == in0 \cup in1
      exp0 == AddBoundary(lv[level], Overlapping(level, RangeLo(allS), RangeHi(allS), TRUE, TRUE))
      exp1 == AddBoundary(lv[level + 1], Overlapping(level + 1, RangeLo(exp0), RangeHi(exp0), TRUE, TRUE))
      grow == in1 # {} /\ Cardinality(exp0) > Cardinality(in0) /\ Cardinality(exp1) = Cardinality(in1)
  IN [in0 |-> IF grow THEN exp0 ELSE in0, in1 |-> IF grow THEN exp1 ELSE in1, grew |-> grow,
      bnd |-> (in0 # start0) \/ (in1 # Overlapping(level + 1, RangeLo(in0), RangeHi(in0), TRUE, TRUE))]

GInit == Init /\ ops = <<>> /\ tags = {}
Rec(o) == ops' = Append(ops, o)
\* simulation picks uniformly among successor states: a weight field multiplies the successors of cheap operations
\* so that ranged compactions (many parameter choices) do not crowd them out
RecW(o, n) == \E w \in 1..n : ops' = Append(ops, [o EXCEPT !.w = w])
CanOp == Len(ops) < MaxOps

GPut(k) == CanOp /\ Write(k, FALSE, seq + 1) /\ RecW([op |-> "put", a |-> k, b |-> 0, c |-> 0, w |-> 0], 8) /\ UNCHANGED tags
GDel(k) == CanOp /\ Write(k, TRUE, 0) /\ RecW([op |-> "del", a |-> k, b |-> 0, c |-> 0, w |-> 0], 3) /\ UNCHANGED tags
\* forced flush: the memtable becomes a table at exactly the level the code picks
GFlush == /\ CanOp /\ mem # {} /\ ~hasImm
          /\ LET f == [n |-> nextf, e |-> mem]  lev == PickLevel(f) IN
             /\ lv' = [lv EXCEPT ![lev] = @ \cup {f}] /\ disk' = disk \cup {f.n}
             /\ tags' = tags \cup (IF lev = 1 THEN {"flush1"} ELSE IF lev = 2 THEN {"flush2"} ELSE {"flush0"})
          /\ mem' = {} /\ nextf' = nextf + 1 /\ RecW([op |-> "flush", a |-> 0, b |-> 0, c |-> 0, w |-> 0], 8)
          /\ UNCHANGED <<seq, imm, hasImm, snaps, hist, pins>>
\* close + open: the log is replayed into a level-0 table
GReopen == /\ CanOp /\ mem # {} /\ snaps = {}
           /\ lv' = [lv EXCEPT ![0] = @ \cup {[n |-> nextf, e |-> mem]}] /\ disk' = disk \cup {nextf}
           /\ mem' = {} /\ nextf' = nextf + 1 /\ RecW([op |-> "reopen", a |-> 0, b |-> 0, c |-> 0, w |-> 0], 14)
           /\ tags' = tags \cup (IF Cardinality(lv[0]) >= 2 THEN {"l0x3"} ELSE {})
           /\ UNCHANGED <<seq, imm, hasImm, snaps, hist, pins>>
\* ldb_test_compact_range(level, b, e): one compaction of everything the range selects
GCompact(level, b, e) ==
  /\ CanOp /\ level + 1 < NL /\ (b = NoKey \/ e = NoKey \/ b <= e)
  /\ LET start0 == Overlapping(level, Lo(b), Hi(e), b # NoKey, e # NoKey) IN
     /\ start0 # {}
     /\ LET su == Setup(level, start0)
            ents == EntsOf(su.in0 \cup su.in1)
            surv == Survivors(level, ents, MinSnap)
            direct == {f \in lv[level] : ~(Largest(f).k < Lo(b) \/ Smallest(f).k > Hi(e))}
            outs == IF surv = {} THEN {} ELSE {[n |-> nextf, e |-> surv]}
        IN /\ InstallCompaction(level, su.in0, su.in1, outs)
           /\ tags' = tags \cup (IF level = 0 /\ start0 # direct THEN {"close0"} ELSE {})
                           \cup (IF level = 0 /\ b # NoKey /\ RangeLo(start0) < b THEN {"close0down"} ELSE {})
                           \cup (IF su.grew THEN {"expand"} ELSE {})
                           \cup (IF su.bnd THEN {"boundary"} ELSE {})
                           \cup (IF \E x \in ents \ surv : x.d THEN {"tombdrop"} ELSE {})
                           \cup (IF \E x \in surv : x.d THEN {"tombkeep"} ELSE {})
                           \cup (IF snaps # {} /\ \E x, y \in surv : x.k = y.k /\ x # y THEN {"snapkeep"} ELSE {})
                           \cup (IF su.in1 # {} THEN {"merge"} ELSE {"push"})
     /\ nextf' = nextf + 1 /\ Rec([op |-> "compact", a |-> level, b |-> b, c |-> e, w |-> 0])
\* metadata lost, ldb_repair, open: the log becomes a table, every table goes to level 0 (C19)
GRepair(variant) ==
  /\ AllowRepair /\ CanOp /\ snaps = {} /\ Files # {} /\ "repair" \notin tags
  /\ LET memf == IF mem = {} THEN {} ELSE {[n |-> nextf, e |-> mem]} IN
     /\ lv' = [l \in Levels |-> IF l = 0 THEN Files \cup memf ELSE {}] /\ disk' = disk \cup {f.n : f \in memf}
  /\ mem' = {} /\ nextf' = nextf + 1 /\ tags' = tags \cup {"repair"}
  /\ RecW([op |-> "repair", a |-> variant, b |-> 0, c |-> 0, w |-> 0], 6)
  /\ UNCHANGED <<seq, imm, hasImm, snaps, hist, pins>>
GSnap == /\ CanOp /\ snaps = {} /\ seq > 0 /\ snaps' = {seq} /\ RecW([op |-> "snap", a |-> 1, b |-> 0, c |-> 0, w |-> 0], 3)
         /\ UNCHANGED <<seq, mem, imm, hasImm, lv, nextf, hist, pins, disk, tags>>
GRel == /\ CanOp /\ snaps # {} /\ snaps' = {} /\ Rec([op |-> "rel", a |-> 1, b |-> 0, c |-> 0, w |-> 0])
        /\ UNCHANGED <<seq, mem, imm, hasImm, lv, nextf, hist, pins, disk, tags>>
GNext == \/ \E k \in Keys : GPut(k) \/ GDel(k)
         \/ GFlush \/ GReopen \/ GSnap \/ GRel \/ (\E v \in 0..3 : GRepair(v))
         \* ranges are taken from the file boundaries of the level (and just past them), where the selection logic has its cases
         \/ \E level \in 0..(NL - 2) :
              /\ (level = 0 => Cardinality(lv[0]) >= 2)
              /\ \E b \in ({NoKey} \cup {Smallest(f).k : f \in lv[level]} \cup {Largest(f).k + 1 : f \in lv[level]}) \cap (Keys \cup {NoKey}) :
                 \E e \in ({NoKey} \cup {Largest(f).k : f \in lv[level]} \cup {Smallest(f).k : f \in lv[level]}) \cap (Keys \cup {NoKey}) :
                    GCompact(level, b, e)
GSpec == GInit /\ [][GNext]_gvars
\* no automatic compaction may become due: fewer than four level-0 files (scores stay below 1 for small data)
GBound == Cardinality(lv[0]) <= 3
\* side effect: write finished behaviours that reached something interesting (evaluated as a state constraint)
Interesting == tags \ {"flush0", "push", "merge"} # {}
Dump == IF Len(ops) = MaxOps /\ Interesting
        THEN ndJsonSerialize(OutDir \o "/b" \o ToString(TLCGet("stats").traces) \o "_" \o ToString(Cardinality(tags)) \o ".ndjson",
                             <<[tags |-> tags, ops |-> ops]>>)
        ELSE TRUE
GConstraint == GBound /\ Dump
=============================================================================
