-------------------------------- MODULE Life --------------------------------
(* The directory lock of lcdb (env_unix_impl.h ldb_lock_file / ldb_unlock_file) with the POSIX semantics that     *)
(* matter: record locks belong to the PROCESS, and closing ANY descriptor of the file releases all of the        *)
(* process's locks on it.  Within a process an in-memory table of held lock files refuses a second handle.        *)
(* CheckFirst = TRUE is the repaired protocol (consult the table before opening the file); FALSE is the          *)
(* original order (open, look up, close on refusal), which loses the first handle's lock (defect D4).             *)
EXTENDS Naturals, FiniteSets
CONSTANTS Procs, Handles, CheckFirst
VARIABLES handles,   \* set of <<p, h>> that believe they hold the database
          osLock,    \* process owning the fcntl lock on LOCK, 0 = nobody
          table      \* process -> LOCK's inode is in its in-process set
vars == <<handles, osLock, table>>
Init == handles = {} /\ osLock = 0 /\ table = [p \in Procs |-> FALSE]
\* opening and closing a descriptor while refusing: the close drops every lock the process has on the file
Refuse(p, opened) == /\ osLock' = (IF opened /\ osLock = p THEN 0 ELSE osLock)
                     /\ UNCHANGED <<handles, table>>
TryOpen(p, h) ==
  /\ <<p, h>> \notin handles
  /\ IF table[p] THEN Refuse(p, ~CheckFirst)                      \* second handle in the same process
     ELSE IF osLock \notin {0, p} THEN Refuse(p, TRUE)            \* another process holds the lock (F_SETLK fails)
     ELSE /\ osLock' = p /\ table' = [table EXCEPT ![p] = TRUE] /\ handles' = handles \cup {<<p, h>>}
Close(p, h) == /\ <<p, h>> \in handles
               /\ handles' = handles \ {<<p, h>>} /\ table' = [table EXCEPT ![p] = FALSE]
               /\ osLock' = (IF osLock = p THEN 0 ELSE osLock)
Next == \E p \in Procs, h \in Handles : TryOpen(p, h) \/ Close(p, h)
Spec == Init /\ [][Next]_vars
\* C20: a database directory can be open through only one handle at a time, across processes and within one
AtMostOneHandle == Cardinality(handles) <= 1
\* whoever believes to hold the database really holds the OS lock
HolderHasLock == \A x \in handles : osLock = x[1]
\* the lock is released on close and on failed open: with no handle, nobody owns it
ReleasedWhenFree == handles = {} => (osLock = 0 /\ \A p \in Procs : ~table[p])
=============================================================================
