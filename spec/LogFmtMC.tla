------------------------------ MODULE LogFmtMC ------------------------------
(* Complete small scope for the design-level facts of LogFmt: every initial offset a log can have, every    *)
(* pair of record lengths up to two blocks plus slack, a third record from a boundary family.               *)
EXTENDS LogFmt
Offs == {0} \cup (H..(B - 1))
Lens2 == 0..(2 * B + 9)
Lens3 == {0, 1, B - H - 1, B - H, B - H + 1, 2 * (B - H), 2 * (B - H) + 1}
Vec2 == {<<o, a, b>> : o \in Offs, a \in Lens2, b \in Lens2}
Vec3 == {<<o, a, b, c>> : o \in Offs, a \in Lens3, b \in Lens3, c \in Lens3}
Check(o, lens) == LET P == Layout(o, lens) IN
                  /\ WellFormed(P) /\ RoundTrip(o, lens)
                  /\ \A cut \in o..EndOf(P, o) : ReadCut(P, cut) <= Len(lens) /\ (cut = EndOf(P, o) => ReadCut(P, cut) = Len(lens))
                  /\ \A i \in 1..Len(P) : ResumesNextBlock(P, i) /\ P[i].rec \notin SurvivorsDamaged(P, i)
ASSUME \A v \in Vec2 : Check(v[1], <<v[2], v[3]>>)
ASSUME \A v \in Vec3 : Check(v[1], <<v[2], v[3], v[4]>>)
ASSUME PrintT(<<"pr", "vectors", Cardinality(Vec2) + Cardinality(Vec3)>>)
VARIABLE x
Init == x = 0
Next == x' = x
Spec == Init /\ [][Next]_x
=============================================================================
