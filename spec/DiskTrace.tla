---------------------------- MODULE DiskTrace ----------------------------
(* Trace validation of a real libc-level I/O journal of lcdb (no hooks) against the crash model of     *)
(* property C02 and the recovery contract of C03/C04/C05.                                              *)
(*                                                                                                     *)
(*  - After EVERY system call the invariants ModelSyncedSurvive / ModelProcessCrash quantify over      *)
(*    every crash image the model allows and apply recovery as a pure operator over independently      *)
(*    decoded units (log records -> batches, MANIFEST records -> edits, tables -> batches).            *)
(*  - "Recovered" lines carry what the REAL ldb_open + scan returned on a byte-exact materialised      *)
(*    image of that instant; the Rec* invariants decide them against the same state.                   *)
EXTENDS Naturals, Integers, Sequences, FiniteSets, TLC, Json, IOUtils

T == ndJsonDeserialize(IOEnv.TRACE)
Meta == T[1].inos               \* per inode (index = ino + 1): kind, num, size, units, man, batches
Bat == T[1].batches             \* per batch id b (index b): [sync, ops]  ops = <<<<k, vid>>, ...>>
M(i) == Meta[i + 1]
NDK == 12
DKeys == 0..(NDK - 1)

VARIABLES l, ns, nsS, pend, wlen, slen, begun, acked, ackedAll, failed, deadLogs, rec, chk
vars == <<l, ns, nsS, pend, wlen, slen, begun, acked, ackedAll, failed, deadLogs, rec, chk>>
Inos == 0..(Len(Meta) - 1)
NoRec == [cls |-> "none"]

Init == /\ l = 2 /\ ns = <<>> /\ nsS = <<>> /\ pend = <<>>
        /\ wlen = [i \in Inos |-> 0] /\ slen = [i \in Inos |-> 0]
        /\ begun = {} /\ acked = {} /\ ackedAll = {} /\ failed = {} /\ deadLogs = {} /\ rec = NoRec /\ chk = FALSE
Ev == T[l]
Is(e) == l <= Len(T) /\ Ev.e = e /\ l' = l + 1

Without(f, n) == [x \in DOMAIN f \ {n} |-> f[x]]
ApplyOp(f, o) == CASE o.e = "create" -> (o.f :> o.i) @@ Without(f, o.f)
                   [] o.e = "rename" -> IF o.a \in DOMAIN f THEN (o.b :> f[o.a]) @@ Without(Without(f, o.a), o.b) ELSE f
                   [] o.e = "link"   -> IF o.a \in DOMAIN f THEN (o.b :> f[o.a]) @@ Without(f, o.b) ELSE f
                   [] o.e = "unlink" -> Without(f, o.f)
RECURSIVE ApplyOpsNs(_, _)
ApplyOpsNs(f, ops) == IF ops = <<>> THEN f ELSE ApplyOpsNs(ApplyOp(f, Head(ops)), Tail(ops))

\* ---- file-system actions: this layer accepts any call sequence; it cannot reject for style ----
KeepAck == UNCHANGED <<begun, acked, ackedAll, failed>>
TCreate == /\ Is("create") /\ ns' = ApplyOp(ns, Ev) /\ pend' = Append(pend, Ev)
           /\ wlen' = [wlen EXCEPT ![Ev.i] = 0] /\ slen' = [slen EXCEPT ![Ev.i] = 0]
           /\ rec' = NoRec /\ chk' = TRUE /\ KeepAck /\ UNCHANGED <<nsS, deadLogs>>
TWrite == /\ Is("write") /\ wlen' = [wlen EXCEPT ![Ev.i] = Ev.end]
          /\ rec' = NoRec /\ chk' = TRUE /\ KeepAck /\ UNCHANGED <<ns, nsS, pend, slen, deadLogs>>
\* fsync of any file or directory makes every earlier directory operation durable (crash model of C02)
TSync == /\ Is("sync") /\ slen' = (IF Ev.i >= 0 THEN [slen EXCEPT ![Ev.i] = wlen[Ev.i]] ELSE slen)
         /\ nsS' = ns /\ pend' = <<>>
         /\ rec' = NoRec /\ chk' = TRUE /\ KeepAck /\ UNCHANGED <<ns, wlen, deadLogs>>
TRename == /\ Is("rename") /\ ns' = ApplyOp(ns, Ev) /\ pend' = Append(pend, Ev)
           /\ rec' = NoRec /\ chk' = TRUE /\ KeepAck /\ UNCHANGED <<nsS, wlen, slen, deadLogs>>
TLink == /\ Is("link") /\ ns' = ApplyOp(ns, Ev) /\ pend' = Append(pend, Ev)
         /\ rec' = NoRec /\ chk' = TRUE /\ KeepAck /\ UNCHANGED <<nsS, wlen, slen, deadLogs>>
TUnlink == /\ Is("unlink") /\ ns' = ApplyOp(ns, Ev) /\ pend' = Append(pend, Ev)
           /\ deadLogs' = (IF Ev.f \in DOMAIN ns /\ M(ns[Ev.f]).kind = "log" THEN deadLogs \cup {ns[Ev.f]} ELSE deadLogs)
           /\ rec' = NoRec /\ chk' = TRUE /\ KeepAck /\ UNCHANGED <<nsS, wlen, slen>>
\* ---- the application's view ----
TBegin == /\ Is("begin") /\ begun' = begun \cup {Ev.b}
          /\ rec' = NoRec /\ chk' = FALSE /\ UNCHANGED <<ns, nsS, pend, wlen, slen, acked, ackedAll, failed, deadLogs>>
TAck == /\ Is("ack") /\ Ev.b \in begun
        /\ IF Ev.rc = 0
           THEN /\ ackedAll' = ackedAll \cup {Ev.b}
                /\ acked' = (IF Ev.sync = 1 THEN acked \cup {Ev.b} ELSE acked) /\ UNCHANGED failed
           ELSE failed' = failed \cup {Ev.b} /\ UNCHANGED <<acked, ackedAll>>
        /\ rec' = NoRec /\ chk' = TRUE /\ UNCHANGED <<ns, nsS, pend, wlen, slen, begun, deadLogs>>
TNote == /\ Is("note") /\ rec' = NoRec /\ chk' = FALSE /\ UNCHANGED <<ns, nsS, pend, wlen, slen, begun, acked, ackedAll, failed, deadLogs>>
\* what the real library recovered from a materialised image of this very state
TRecovered == /\ Is("Recovered") /\ rec' = Ev /\ chk' = FALSE
              /\ UNCHANGED <<ns, nsS, pend, wlen, slen, begun, acked, ackedAll, failed, deadLogs>>
Next == TCreate \/ TWrite \/ TSync \/ TRename \/ TLink \/ TUnlink \/ TBegin \/ TAck \/ TNote \/ TRecovered
Spec == Init /\ [][Next]_vars

\* ================= recovery as a pure operator over an image ==================================
Range(f) == {f[x] : x \in DOMAIN f}
SeqToSet(s) == {s[j] : j \in 1..Len(s)}
UnitEnds(i) == {M(i).units[j][1] : j \in 1..Len(M(i).units)}
Choices(i) == {slen[i], wlen[i]} \cup {e \in UnitEnds(i) : slen[i] < e /\ e < wlen[i]}
Recover(nsI, lenOf(_)) ==
  IF "CURRENT" \notin DOMAIN nsI THEN [db |-> FALSE, ok |-> TRUE, have |-> {}]
  ELSE LET cur == nsI["CURRENT"]
           files == Range(nsI)
           mans == {i \in files : M(i).kind = "manifest" /\ M(i).num = M(cur).man}
       IN IF M(cur).kind # "current" \/ lenOf(cur) < M(cur).size \/ mans = {}
          THEN [db |-> TRUE, ok |-> FALSE, have |-> {}]          \* CURRENT must name a complete MANIFEST (C17)
          ELSE LET man == CHOOSE i \in mans : TRUE
                   n == Cardinality({j \in 1..Len(M(man).units) : M(man).units[j][1] <= lenOf(man)})
                   edits == [j \in 1..n |-> M(man).units[j][2]]
                   withLog == {j \in 1..n : edits[j].log >= 0}
                   lognum == IF withLog = {} THEN 0 ELSE edits[CHOOSE j \in withLog : \A k \in withLog : k <= j].log
                   \* edits apply in order; within one edit deletions come first (a trivial move deletes a file from
                   \* one level and adds the same number to the next in a single edit)
                   tables == LET RECURSIVE After(_)
                                 After(j) == IF j = 0 THEN {}
                                             ELSE (After(j - 1) \ SeqToSet(edits[j].dele)) \cup SeqToSet(edits[j].add)
                             IN After(n)
                   tblIno(t) == {i \in files : M(i).kind = "table" /\ M(i).num = t /\ lenOf(i) = M(i).size}
                   tblOk == n >= 1 /\ \A t \in tables : tblIno(t) # {}
                   fromTbl == UNION {UNION {SeqToSet(M(i).batches) : i \in tblIno(t)} : t \in tables}
                   logs == {i \in files : M(i).kind = "log" /\ M(i).num >= lognum}
                   fromLog == UNION {UNION {SeqToSet(M(i).units[j][2]) :
                                            j \in {x \in 1..Len(M(i).units) : M(i).units[x][1] <= lenOf(i)}} : i \in logs}
               IN [db |-> TRUE, ok |-> tblOk, have |-> fromTbl \cup fromLog]

\* which log inode holds batch b (from the independent decode of the journalled bytes)
LogOf(b) == {i \in Inos : M(i).kind = "log" /\ \E j \in 1..Len(M(i).units) : b \in SeqToSet(M(i).units[j][2])}
\* C02: synced-acknowledged writes, and unsynced acknowledged writes whose log file the database has deleted
MustSurvive == acked \cup {b \in ackedAll : LogOf(b) # {} /\ LogOf(b) \subseteq deadLogs}

ImageOk(d, f) == LET nsI == ApplyOpsNs(nsS, SubSeq(pend, 1, d))
                     lenOf(i) == IF i \in DOMAIN f THEN f[i] ELSE wlen[i]
                     r == Recover(nsI, lenOf)
                 IN /\ r.ok
                    /\ (MustSurvive # {} => r.db)
                    /\ MustSurvive \subseteq r.have
Dirty == {i \in Range(ns) \cup Range(nsS) : slen[i] < wlen[i]}
AllCh == UNION {Choices(i) : i \in Dirty}
\* C02 on the model: every crash image the model allows, at every system-call boundary
ModelSyncedSurviveC == chk => \A d \in 0..Len(pend) : \A f \in [Dirty -> AllCh] :
                                (\A i \in Dirty : f[i] \in Choices(i)) => ImageOk(d, f)
\* C03 on the model: every written byte and every directory operation survives
ModelProcessCrashC == chk => LET r == Recover(ns, LAMBDA i : wlen[i])
                            IN r.ok /\ (ackedAll # {} => r.db) /\ ackedAll \subseteq r.have
\* C17: whenever CURRENT is durable in an image it names a complete MANIFEST (part of Recover.ok above)
\* C13 at the system-call level: no table file that the MANIFEST on disk names is ever missing or short - in particular
\* not after an I/O failure interrupted a flush or a compaction (the journal of a fault-injected run is validated)
ModelNoLiveFileMissingC == chk => Recover(ns, LAMBDA i : wlen[i]).ok

\* ================= what the real library recovered ============================================
RECURSIVE ApplyKv(_, _)
ApplyKv(m, ops) == IF ops = <<>> THEN m ELSE ApplyKv([m EXCEPT ![Head(ops)[1]] = Head(ops)[2]], Tail(ops))
RECURSIVE FoldFrom(_, _, _)
FoldFrom(m, b, S) == IF b > Len(Bat) THEN m
                     ELSE FoldFrom(TLCEval(IF b \in S THEN ApplyKv(m, Bat[b].ops) ELSE m), b + 1, S)
Fold(S) == FoldFrom([k \in DKeys |-> 0], 1, S)
DataOf(pairs) == ApplyKv([k \in DKeys |-> 0], pairs)
SetOf(s) == {s[j] : j \in 1..Len(s)}
IsRec == rec.cls # "none"
PowerLoss == IsRec /\ rec.chain # "max"          \* some power loss in the chain of crashes that led to this image
\* C05: opening succeeds, nothing damaged, lookups agree with the scan
RecOpenOkC == IsRec => rec.rc = 0 /\ rec.status = 0 /\ rec.bad = 0 /\ rec.getmismatch = 0
\* C02: synced (or log-deleted) acknowledged batches are present after any power loss
RecSyncedC == (IsRec /\ rec.rc = 0) => MustSurvive \subseteq SetOf(rec.markers)
\* C03: after a process crash every acknowledged batch is present, and nothing that was not issued
RecAckedC == (IsRec /\ rec.rc = 0 /\ rec.chain = "max") => ackedAll \subseteq SetOf(rec.markers)
RecNothingElseC == (IsRec /\ rec.rc = 0) => SetOf(rec.markers) \subseteq begun
\* C04: whole batches only, in order: the data keys equal the fold of exactly the surviving batches
RecAtomicC == (IsRec /\ rec.rc = 0) => DataOf(rec.data) = Fold(SetOf(rec.markers))
\* C05: at most a tail of each write-ahead-log segment is dropped
SegOf(i) == LET RECURSIVE Cat(_) Cat(j) == IF j > Len(M(i).units) THEN <<>> ELSE M(i).units[j][2] \o Cat(j + 1) IN Cat(1)
IsPrefixSet(S, seg) == \E n \in 0..Len(seg) : S \cap SetOf(seg) = {seg[j] : j \in 1..n}
RecPrefixC == (IsRec /\ rec.rc = 0) =>
               \A i \in {x \in Inos : M(x).kind = "log"} : IsPrefixSet(SetOf(rec.markers), SegOf(i))
\* C05: opening again loses nothing further
RecAgainC == (IsRec /\ rec.rc = 0 /\ "again" \in DOMAIN rec) =>
               /\ rec.again.rc = 0 /\ rec.again.status = 0 /\ rec.again.bad = 0 /\ rec.again.getmismatch = 0
               /\ SetOf(rec.again.markers) = SetOf(rec.markers) /\ DataOf(rec.again.data) = DataOf(rec.data)
\* C05: writes made after recovery take precedence and persist across the next reopen
RECURSIVE ApplyFollow(_, _)
ApplyFollow(m, fo) == IF fo = <<>> THEN m ELSE ApplyFollow(ApplyKv(m, Head(fo)[2]), Tail(fo))
RecFollowC == (IsRec /\ rec.rc = 0 /\ "follow" \in DOMAIN rec) =>
               LET fw == rec.follow
                   want == ApplyFollow(DataOf(rec.data), fw.ops)
                   wantM == SetOf(rec.markers) \cup {fw.ops[j][1] : j \in 1..Len(fw.ops)}
               IN /\ fw.wrc = 0 /\ fw.status = 0 /\ fw.bad = 0 /\ fw.getmismatch = 0      \* point lookups agree with the scan
                  /\ DataOf(fw.data) = want /\ SetOf(fw.markers) = wantM
                  /\ fw.reopen.rc = 0 /\ fw.reopen.status = 0 /\ fw.reopen.bad = 0 /\ fw.reopen.getmismatch = 0
                  /\ DataOf(fw.reopen.data) = want /\ SetOf(fw.reopen.markers) = wantM

\* a violated invariant prints the trace position, so the orchestrator need not wait for TLC to rebuild the behaviour
ViolAt(name) == PrintT(<<"pr", name, l>>)
ModelSyncedSurvive == ModelSyncedSurviveC \/ ~ViolAt("ModelSyncedSurvive")
ModelProcessCrash == ModelProcessCrashC \/ ~ViolAt("ModelProcessCrash")
ModelNoLiveFileMissing == ModelNoLiveFileMissingC \/ ~ViolAt("ModelNoLiveFileMissing")
RecOpenOk == RecOpenOkC \/ ~ViolAt("RecOpenOk")
RecSynced == RecSyncedC \/ ~ViolAt("RecSynced")
RecAcked == RecAckedC \/ ~ViolAt("RecAcked")
RecNothingElse == RecNothingElseC \/ ~ViolAt("RecNothingElse")
RecAtomic == RecAtomicC \/ ~ViolAt("RecAtomic")
RecPrefix == RecPrefixC \/ ~ViolAt("RecPrefix")
RecAgain == RecAgainC \/ ~ViolAt("RecAgain")
RecFollow == RecFollowC \/ ~ViolAt("RecFollow")
=============================================================================
