SPECIFICATION Spec
CHECK_DEADLOCK FALSE
INVARIANT ModelProcessCrash
INVARIANT RecAcked
INVARIANT RecNothingElse
INVARIANT RecAtomic
INVARIANT RecFollow
