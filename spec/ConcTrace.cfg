SPECIFICATION Spec
CONSTANTS
  CheckSignals = TRUE
  CheckReads = TRUE
CHECK_DEADLOCK FALSE
INVARIANT OneLeader
