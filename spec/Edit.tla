-------------------------------- MODULE Edit --------------------------------
(* Version metadata (version_edit.c / version_set.c): a MANIFEST is a sequence of version edits; replaying   *)
(* it must reproduce exactly the file set per level and the counters that were in effect (C17, C14).        *)
(* An edit is [log, prevlog, nextfile, lastseq (each -1 when absent), add: <<level, num, size>>...,          *)
(* del: <<level, num>>...].  Deletions of an edit apply before its additions (builder_apply / save_to).      *)
EXTENDS Naturals, Integers, Sequences, FiniteSets, TLC

EmptyState == [files |-> {}, log |-> 0, prevlog |-> 0, nextfile |-> 0, lastseq |-> 0]
SeqSet(s) == {s[i] : i \in 1..Len(s)}
ApplyEdit(st, e) ==
  LET dels == {<<d[1], d[2]>> : d \in SeqSet(e.del)}
      kept == {f \in st.files : <<f[1], f[2]>> \notin dels}
      adds == {<<a[1], a[2], a[3]>> : a \in SeqSet(e.add)}
  IN [files |-> kept \cup adds,
      log |-> IF e.log >= 0 THEN e.log ELSE st.log,
      prevlog |-> IF e.prevlog >= 0 THEN e.prevlog ELSE st.prevlog,
      nextfile |-> IF e.nextfile >= 0 THEN e.nextfile ELSE st.nextfile,
      lastseq |-> IF e.lastseq >= 0 THEN e.lastseq ELSE st.lastseq]
RECURSIVE Fold(_, _)
\* (TLCEval forces the accumulator: TLC would otherwise re-evaluate the lazily nested argument at every level)
Fold(st, edits) == IF edits = <<>> THEN st ELSE Fold(TLCEval(ApplyEdit(st, Head(edits))), TLCEval(Tail(edits)))
\* a file number appears at most once in a folded version, and never at two levels
WellFormedState(st) == \A f, g \in st.files : f[2] = g[2] => f = g
\* an edit never deletes a file that is not there, nor adds one that is
EditApplies(st, e) == /\ \A d \in SeqSet(e.del) : \E f \in st.files : f[1] = d[1] /\ f[2] = d[2]
                      /\ \A a \in SeqSet(e.add) : \A f \in st.files : f[2] # a[2] \/ <<f[1], f[2]>> \in {<<d[1], d[2]>> : d \in SeqSet(e.del)}
RECURSIVE AllApply(_, _)
AllApply(st, edits) == IF edits = <<>> THEN TRUE ELSE (EditApplies(st, Head(edits)) /\ AllApply(TLCEval(ApplyEdit(st, Head(edits))), TLCEval(Tail(edits))))
=============================================================================
